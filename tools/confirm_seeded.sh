#!/bin/bash
# tools/confirm_seeded.sh <Cxx> [suffix]  — confirm a sub-agent's seeded defect in its scratch worktree /tmp/seed-<Cxx>,
# store it under /verif/seeded/<Cxx>[-suffix]/, then run the property's quick check against it in /repo and revert.
set -u
prop=$1; sfx=${2:-}
wt=/tmp/seed-$prop
id=$prop${sfx:+-$sfx}
out=/verif/seeded/$id
mkdir -p $out
cp $wt/patch.diff $wt/demo.diff $wt/SEEDED.md $out/ 2>/dev/null || { echo "missing deliverables in $wt"; exit 2; }
cd $wt || exit 2
git checkout -q -- . ; git clean -fdq src tests examples 2>/dev/null
# the two wall-clock tests in heartbeats.rs flake on a loaded machine: they are re-run alone
run() { cargo test --offline 2>&1 | grep -E "^test .*FAILED|^test result" | grep -v "heartbeats::tests" | head -8; cargo test --offline --lib heartbeats::tests 2>&1 | grep -E "^test result" | sed 's/^/  (heartbeats alone) /' | head -1; }
echo "== pristine"; r0=$(run); echo "$r0"
git apply demo.diff || { echo "demo.diff does not apply"; exit 2; }
echo "== demo only (must pass)"; r1=$(run); echo "$r1"
git apply patch.diff || { echo "patch.diff does not apply"; exit 2; }
echo "== demo + defect (demo must fail)"; r2=$(run); echo "$r2"
git checkout -q -- . ; git clean -fdq src tests examples 2>/dev/null; git apply patch.diff
echo "== defect only (existing suite must pass)"; r3=$(run); echo "$r3"
git checkout -q -- . ; git clean -fdq src tests examples 2>/dev/null
ok_demo_pass=$(echo "$r1" | grep -c "^test .*FAILED")
ok_demo_fail=$(echo "$r2" | grep -c "^test .*FAILED")
ok_suite=$(echo "$r3" | grep -c "^test .*FAILED")
echo "confirm: demo-alone-failures=$ok_demo_pass demo+defect-failures=$ok_demo_fail defect-only-failures=$ok_suite"
# now against the checks
[ -n "${CONFIRM_ONLY:-}" ] && exit 0
cd /repo && git diff --quiet || { echo "/repo dirty"; exit 2; }
if ! git apply --check $out/patch.diff 2>/dev/null; then echo "patch does not apply to current /repo HEAD (3-way)"; git apply -3 $out/patch.diff || { echo "cannot apply"; git reset -q --hard HEAD; exit 3; }; else git apply $out/patch.diff; fi
cp /verif/evidence/$prop.json /tmp/ev_$prop.json 2>/dev/null
cd /verif && ./check $prop quick > $out/check_output.txt 2>&1; code=$?
cp /tmp/ev_$prop.json /verif/evidence/$prop.json 2>/dev/null
git -C /repo checkout -- .
grep -E "VIOLATION|violated|evaluations|KNOWN|HARNESS" $out/check_output.txt | cut -c1-220 | head -8
echo "check exit=$code"
