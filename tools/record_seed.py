#!/usr/bin/env python3
"""tools/record_seed.py <id> <caught_first:yes|no> <needs> <result> [caught_by...] : writes seeded/<id>/meta.json and appends the README row."""
import json,sys,subprocess
sid,first,needs,result=sys.argv[1:5]
caught_by=sys.argv[5:]
prop=sid.split('-')[0]
head=subprocess.check_output(['git','-C','/repo','rev-parse','--short','HEAD']).decode().strip()
m={"id":sid,"breaks_property":prop,"needs_to_manifest":needs,
 "origin":"written by a fresh sub-agent that was given only the property text (plus a note listing what earlier seeds of the property need in order to manifest) and its own scratch worktree of /repo (commit %s)"%head,
 "confirmed_by_me":"tools/confirm_seeded.sh: in the scratch worktree the existing suite passes with the defect (40 unit + 10 doc; the two wall-clock heartbeat tests flake under load), the demonstration passes without the defect and fails with it",
 "checks_run":"tools/confirm_seeded.sh %s %s ; tools/try_patch.sh %s %s"%(prop,sid.split('-')[1],sid,' '.join(caught_by or [prop])),
 "result":result,"caught_by_first_version_of_check":first=='yes'}
if caught_by: m["caught_by"]=caught_by
json.dump(m,open('/verif/seeded/%s/meta.json'%sid,'w'),indent=1)
open('/verif/seeded/README.md','a').write("| %s | %s | %s | %s |\n"%(sid,prop,needs,result))
