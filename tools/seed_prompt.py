#!/usr/bin/env python3
"""Prints the prompt for a seeded-mutation sub-agent for property <id> (text of the property only)."""
import json,sys
pid=sys.argv[1]
# TAKEN: what earlier seeds of this property need in order to manifest (from seeded/README.md), so that a new author picks another mechanism
import re
taken=[]
for l in open('/verif/seeded/README.md'):
    m=re.match(r'\| (C\d\d-\d+) \| (C\d\d) \| (.*?) \| ',l)
    if m and m.group(1).startswith(pid+'-'): taken.append(m.group(3))
for l in open('/verif/properties.jsonl'):
    p=json.loads(l)
    if p['id']==pid: break
print(f"""You are working alone in a scratch git worktree of the Rust crate `amiquip` (a pure-Rust, synchronous RabbitMQ / AMQP 0-9-1 client: a mio I/O thread, connection/channel state machines, content reassembly, publisher-confirm smoothing). The worktree is /tmp/seed-{pid} . Work ONLY inside that directory: do not read, list or modify /repo, /verif or any other path outside it (other people's work lives there and looking at it would spoil an experiment). The sandbox is offline: use `cargo build --offline` / `cargo test --offline`. Lines guarded by `cfg(amiquip_verif)` are instrumentation hooks that are off by default: leave them alone and ignore them.

The crate is supposed to satisfy this property:

  {p['id']} — {p['title']}
  Statement: {p['statement']}
  Must hold: {p['quantifier']['text']}

Your task: introduce ONE realistic defect into the crate's source (under src/) that BREAKS this property, of the kind a maintainer could plausibly commit (a wrong comparison or off-by-one, a statement moved to the wrong side of a branch or loop, a forgotten update, a reset in the wrong place, two sites that each look fine alone but disagree, ...). Requirements:
  1. The crate still compiles, and the existing test suite still passes unchanged: `cargo test --offline` must report the same passing tests as before your change (40 unit tests + 10 doc tests).
  2. The defect must need something SPECIFIC to manifest: a particular thread interleaving, a fault (short write, would-block, EOF, reset, timeout...) at a particular point, a multi-step sequence of operations, an unusual but legal input or configuration, or a particular ordering of server messages. It must NOT be something that ordinary use would expose at once (do not break every publish, every call, every handshake).
  3. Write a demonstration that FAILS with your change and PASSES without it: preferably a `#[test]` in a new test module / new file inside the crate (it may use private items; it may drive a real `Connection` through `Connection::insecure_open_stream` with your own mock stream type implementing `std::io::Read + Write + mio::Evented` (see `src/stream/mod.rs` for the `IoStream` trait), or over a loopback `std::net::TcpListener` on 127.0.0.1 with a hand-rolled fake broker thread — loopback works here; or it may be a unit test of an internal struct if that is enough to show the broken behaviour). A small example program is also acceptable.
  4. Verify BOTH directions yourself (demo passes on the original code, fails with the defect; the existing tests pass with the defect).

Deliverables, all in the worktree root /tmp/seed-{pid}:
  - `patch.diff`  : the defect only (a `git diff` of the src/ change, without the demonstration), applicable with `git apply` to the original tree;
  - `demo.diff`   : the demonstration only (a diff that adds the test file / module), applicable with `git apply` to the original tree independently of patch.diff;
  - `SEEDED.md`   : which part of the property the defect breaks, what it needs in order to manifest, why the existing tests do not notice, and the exact commands you ran with their results (with and without the defect).
""" + ("Earlier experiments on this property already used defects that need the following in order to manifest; pick a DIFFERENT mechanism in a DIFFERENT part of the code (something none of these would lead one to look at):\n" + "".join("  - "+t+"\n" for t in taken) if taken else "") + f"""Do NOT use `git stash` (the stash is shared between worktrees and other people are working in sibling worktrees right now): to test the original code, undo your change with `git apply -R patch.diff` and re-apply it with `git apply patch.diff`. Do not commit anything. Leave the worktree with BOTH diffs applied. Keep the change small (a few lines). When done, reply with a 5-line summary.""")
