#!/bin/bash
# tools/mutate.sh <PROP> <file-in-repo> <sed-expr> : apply a one-line change to /repo, run the quick check, revert
# (the evidence file is saved and restored: evidence must come from the unchanged tree)
prop=$1; file=$2; expr=$3
cd /repo || exit 2
git diff --quiet || { echo "repo dirty"; exit 2; }
sed -i "$expr" "$file"
if git diff --quiet; then echo "MUTATION DID NOT APPLY"; exit 2; fi
git diff | grep '^[+-][^+-]' | head -4
cp /verif/evidence/$prop.json /tmp/ev_$prop.json 2>/dev/null
cd /verif && ./check "$prop" quick | grep -E "VIOLATION|evaluations|HARNESS|KNOWN" | cut -c1-200 | head -5
cp /tmp/ev_$prop.json /verif/evidence/$prop.json 2>/dev/null; rm -f /tmp/ev_$prop.json
git -C /repo checkout -- .
