#!/bin/bash
# tools/mutate.sh <PROP> <file-in-repo> <sed-expr> : apply a one-line change to /repo, run the quick check, revert
prop=$1; file=$2; expr=$3
cd /repo || exit 2
git diff --quiet || { echo "repo dirty"; exit 2; }
sed -i "$expr" "$file"
if git diff --quiet; then echo "MUTATION DID NOT APPLY"; exit 2; fi
git diff | grep '^[+-][^+-]' | head -4
cd /verif && ./check "$prop" quick | grep -E "VIOLATION|evaluations|HARNESS|KNOWN" | head -5
git -C /repo checkout -- .
