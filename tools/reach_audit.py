#!/usr/bin/env python3
"""tools/reach_audit.py : reads /verif/evidence/*.json and lists probes (oracle clauses, fault kinds, rare
conditions) that a full tier run is expected to reach but that stand at zero.  A clause stuck at zero means
the oracle is vacuous there (that is how the seeded defect C13-2 slipped through once).  Exit 1 if any."""
import json, glob, sys
MUST = {
 "C01": ["wire.channels_sequence_checked", "wire.frames_compared", "fault.short_write_inside_frame", "fault.would_block_write_inside_frame", "c01.server_close_sessions", "c01.heartbeat_stall_sessions"],
 "C02": ["c02.publishes_checked", "c02.boundary_bodies", "c02.multi_frame_bodies", "c02.server_cancels_scripted", "c02.stray_channel_flow_scripted", "c02.cut_short_inside_publish"],
 "C03": ["c03.consumers_checked", "c03.deliveries_compared", "c03.gets_compared", "c03.returns_compared", "probe.big_body_sessions", "probe.multi_frame_content", "c03.flood_sessions", "c03.stalled_writes_checked", "c03.stalled_writes_with_backlog", "probe.big_body_sessions_with_frames_up_to_128k"],
 "C04": ["c04.calls_paired", "c04.nowait_calls", "c04.runs_with_overlapping_calls", "c04.server_cancels_scripted", "c04.reopen_after_close_checked", "c04.reopen_after_crossing_close_checked"],
 "C05": ["c05.fault_fired", "c05.calls_after_death", "c05.runs_with_call_in_flight_at_death", "c05.closed_by_drop", "c05.kind.eof-at-offset", "c05.kind.reset-at-offset", "c05.kind.write-error-at-call", "c05.kind.corrupt-frame-end", "c05.kind.corrupt-frame-type", "c05.kind.silence", "c05.kind.server-close", "c05.kind.client-exception"],
 "C06": ["c06.cut_inside_frame", "c06.deliveries_timed", "c06.glued_to_open_ok", "c06.close_glued_to_open_ok", "c06.eof_with_last_segment", "c06.ending.eof", "c06.ending.malformed", "c06.ending.connection close", "c06.runs_on_streams_with_a_frame_over_16k"],
 "C07": ["c07.expect.ClientException", "c07.expect.DuplicateConsumerTag", "c07.expect.FrameUnexpected", "c07.expect.ReceivedFrameWithBogusChannelId", "c07.expect.UnknownConsumerTag", "c07.giant_announced_size", "c07.busy_writer_cases"],
 "C08": ["c08.client_close_runs", "c08.server_close_runs", "c08.heartbeat_sessions", "c08.both_sides_close_sessions", "c08.cancel_then_connection_close_during_publish"],
 "C09": ["c09.closed_channels_checked", "c09.call_in_flight_at_close", "c09.consumers_on_closed_channel", "c09.reopen_attempts", "c09.ack_errors_in_drain_sequenced", "c09.cancel_just_before_close_directed"],
 "C10": ["c10.opens", "c10.exhausted", "c10.reused_freed_id", "c10.crossing_closes", "c10.crossing_closes_crossed", "c10.refused_opens_seen"],
 "C11": ["c11.consumers_checked", "c11.server_cancels_checked", "c11.terminal.ClientCancelled", "c11.terminal.ServerCancelled", "c11.terminal.ClientClosedChannel", "c11.terminal.ServerClosedChannel", "c11.terminal.ClientClosedConnection", "c11.terminal.ServerClosedConnection", "c11.cancelok_before_close_checked"],
 "C12": ["c12.methods_compared", "c12.foreign_ack_panicked", "probe.handles_across_channels"],
 "C13": ["c13.confirm_must_have_checked", "c13.return_must_have_checked", "c13.blocked_must_have_checked", "c13.old_listener_checked", "c13.listeners_replaced", "c13.listeners_dropped", "c13.early_close_runs", "c13.early_close_events_sent_after_client_close"],
 "C14": ["c14.confirmations", "c14.histories_out_of_order", "c14.histories_with_early_drop", "c14.histories_with_multiple", "c14.built_with_new", "c14.built_with_default"],
 "C15": ["c15.behaviour_checked", "c15.frame_max_too_small", "c15.ids_runs", "c15.ids_stray_close_ok", "c15.ids_refused_opens"],
 "C16": ["c16.timeouts_timed", "c16.want.connected", "c16.want.ConnectionTimeout", "c16.want.FrameMaxTooSmall", "c16.want.InvalidCredentials", "c16.want.SaslSecureNotSupported", "c16.want.ServerClosedConnection", "c16.want.UnsupportedAuthMechanism", "c16.want.UnsupportedLocale", "c16.want.MalformedFrame", "c16.want.UnexpectedSocketClose"],
 "C17": ["c17.deaths_timed", "c17.client_heartbeat_frames", "c17.pattern.one-frame-trickling-in", "c17.pattern.server-goes-silent", "c17.late_open_ok_with_stalled_io_thread"],
 "C18": ["c18.throttle_engaged", "c18.io_atomic_runs", "c18.close_only_channel_variant", "c18.close_behind_backlog_runs"],
 "C20": ["c20.batches_with_all_tokens", "c20.expected_tokens", "c20.channel_closeok_checked", "c20.open_channel_accepted_before_connection_close"],
}
bad = 0
for pid, probes in sorted(MUST.items()):
    try:
        e = json.load(open(f"/verif/evidence/{pid}.json"))
    except Exception as ex:
        print(f"{pid}: no evidence ({ex})"); bad += 1; continue
    c = e["coverage"].get("fault_and_probe_counters", {})
    zero = [p for p in probes if c.get(p, 0) == 0]
    print(f"{pid} [{e.get('tier')}]: {len(probes) - len(zero)}/{len(probes)} probes reached" + (f"; AT ZERO: {zero}" if zero else ""))
    bad += len(zero)
sys.exit(1 if bad else 0)
