#!/bin/bash
# tools/try_patch.sh <seeded-id> <PROP>... : apply /verif/seeded/<id>/patch.diff to /repo, run the quick checks, revert
id=$1; shift
cd /repo && git diff --quiet || { echo "/repo dirty"; exit 2; }
git apply /verif/seeded/$id/patch.diff || git apply -3 /verif/seeded/$id/patch.diff || { echo "cannot apply"; git checkout -- .; exit 3; }
for prop in "$@"; do
  cp /verif/evidence/$prop.json /tmp/ev_$prop.json 2>/dev/null
  cd /verif && out=$(./check $prop quick 2>&1); code=$?
  cp /tmp/ev_$prop.json /verif/evidence/$prop.json 2>/dev/null
  echo "$id vs $prop: exit=$code $(echo "$out" | grep -E 'violated' | head -3 | cut -c1-120 | tr '\n' ';')"
done
git -C /repo checkout -- .
