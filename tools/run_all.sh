#!/bin/bash
# tools/run_all.sh [quick|thorough] : every claimed check on the current tree; prints one summary line each
tier=${1:-quick}
cd /verif
for p in $(python3 -c "import json;print(' '.join(c['property_id'] for c in json.load(open('MANIFEST.json'))['checks']))"); do
  out=$(./check $p $tier 2>&1); code=$?
  echo "$p exit=$code $(echo "$out" | grep -E 'evaluations' | tail -1)"
  echo "$out" | grep -E "VIOLATION|HARNESS-ERROR|KNOWN-FINDING" | cut -c1-160
done
