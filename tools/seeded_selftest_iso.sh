#!/bin/bash
# tools/seeded_selftest_iso.sh [workdir] [id-glob]
# Same requirement as seeded_selftest.sh (every seeded defect must be reported by its check's quick tier), but run
# in isolation so that /repo and /verif stay free: a scratch worktree of /repo's HEAD plus a copy of /verif whose
# shadow manifest points at that worktree. Everything is removed afterwards. Prints one line per seed; exit 1 on a miss.
W=${1:-/tmp/selftest}; glob=${2:-*}
git -C /repo worktree remove --force $W/repo 2>/dev/null; rm -rf $W; mkdir -p $W
git -C /repo worktree add --detach $W/repo HEAD >/dev/null 2>&1 || { echo "cannot create worktree"; exit 2; }
rsync -a --exclude target --exclude replays --exclude .git --exclude seeded /verif/ $W/verif/
sed -i "s#\"/repo/#\"$W/repo/#" $W/verif/sim/amiquip-shadow/Cargo.toml
fail=0; n=0; miss=""
for d in /verif/seeded/$glob/; do
  id=$(basename $d)
  [ -f $d/meta.json ] || continue
  prop=$(python3 -c "import json;m=json.load(open('$d/meta.json'));print(m.get('caught_by',[m['breaks_property']])[0])" 2>/dev/null) || continue
  # a seed recorded as not (yet) caught is listed, not required
  if python3 -c "import json,sys;sys.exit(0 if json.load(open('$d/meta.json')).get('status')=='missed' else 1)"; then echo "$id: recorded as missed (no check reports it yet)"; continue; fi
  ( cd $W/repo && { git apply $d/patch.diff 2>/dev/null || git apply -3 $d/patch.diff 2>/dev/null; } ) || { echo "$id: patch no longer applies"; git -C $W/repo reset -q --hard HEAD; fail=1; miss="$miss $id"; continue; }
  out=$(cd $W/verif && ./check $prop quick 2>&1); code=$?
  git -C $W/repo reset -q --hard HEAD
  v=$(echo "$out" | grep -E "violated" | head -2 | cut -c1-90 | tr '\n' ';')
  echo "$id ($prop): exit=$code $v"
  n=$((n+1))
  [ $code -eq 1 ] || { fail=1; miss="$miss $id"; }
done
git -C /repo worktree remove --force $W/repo; rm -rf $W
echo "selftest: $n seeds, missed:${miss:- none}"
exit $fail
