#!/bin/bash
# tools/seeded_selftest.sh : every seeded defect under /verif/seeded must be reported by its property's quick check
# (meta.json's optional caught_by names the check when it is not the property's own; patch applied to /repo, check run, patch reverted; evidence files are restored afterwards)
cd /verif
fail=0
for d in seeded/*/; do
  id=$(basename $d)
  prop=$(python3 -c "import json;m=json.load(open('$d/meta.json'));print(m.get('caught_by',[m['breaks_property']])[0])" 2>/dev/null) || continue
  # a seed recorded as not (yet) caught is listed, not required
  if python3 -c "import json,sys;sys.exit(0 if json.load(open('$d/meta.json')).get('status')=='missed' else 1)"; then echo "$id: recorded as missed (no check reports it yet)"; continue; fi
  cd /repo && git diff --quiet || { echo "/repo dirty"; exit 2; }
  git apply /verif/$d/patch.diff 2>/dev/null || git apply -3 /verif/$d/patch.diff 2>/dev/null || { echo "$id: patch no longer applies"; git reset -q --hard HEAD; fail=1; cd /verif; continue; }
  cp /verif/evidence/$prop.json /tmp/ev_$prop.json 2>/dev/null
  cd /verif && out=$(./check $prop quick 2>&1); code=$?
  cp /tmp/ev_$prop.json /verif/evidence/$prop.json 2>/dev/null
  git -C /repo checkout -- .
  v=$(echo "$out" | grep -E "violated" | head -2 | cut -c1-90 | tr '\n' ';')
  echo "$id ($prop): exit=$code $v"
  [ $code -eq 1 ] || fail=1
done
exit $fail
