#!/usr/bin/env python3
"""Regenerates MANIFEST.json from the table below (kept in one place so it stays valid)."""
import json, subprocess
claimed = json.load(open('/verif/claims.json'))
props = [json.loads(l) for l in open('/verif/properties.jsonl')]
hook_commits = subprocess.run(['git','-C','/repo','log','--format=%h %s'],capture_output=True,text=True).stdout.splitlines()
hooks=[l.split()[0] for l in hook_commits if l.split(' ',1)[1].startswith('verif hooks')]
checks=[]; na=[]
for p in props:
    pid=p['id']
    c=claimed.get(pid)
    if c and c.get('claim'):
        checks.append({
            "property_id": pid,
            "quick_cmd": f"./check {pid} quick",
            "thorough_cmd": f"./check {pid} thorough",
            "evidence_file": f"/verif/evidence/{pid}.json",
            "replay_cmd_template": f"./check {pid} --replay {{path}}",
            "engine": "simcheck",
            "level_claimed": {"category": c['level'], "text": c['text'], "design_ref": c.get('design_ref','DESIGN.md §7')},
            "level_note": c['note'],
            "technique": c.get('technique',"deterministic simulation with fault injection: seeded search over schedules, fault placements and broker behaviours; real client code under a baton scheduler, simulated socket/clock/broker"),
        })
    else:
        na.append({"property_id": pid, "reason": (c or {}).get('reason', 'check not built yet in this session; see DESIGN.md')})
m={
 "version":1,
 "setup_cmd":"./check build",
 "hooks":{
   "guard":"amiquip_verif",
   "enable":"cfg flag: RUSTFLAGS --cfg amiquip_verif via /verif/sim/.cargo/config.toml; the shadow manifest /verif/sim/amiquip-shadow/Cargo.toml compiles /repo/src/lib.rs verbatim against the seam crates in /verif/sim/shims",
   "baseline_off_cmd":"cd /repo && cargo test --workspace --no-fail-fast --offline",
   "source_commits":hooks,
   "add_only":True
 },
 "engines":[{"name":"simcheck","path":"/verif/sim","serves_properties":[c['property_id'] for c in checks],
   "kind_free_text":"deterministic simulator: baton scheduler over real OS threads (amiquip_simrt), link-level seam crates for crossbeam-channel and mio-extras, simulated socket (SimStream over mio::Registration), simulated clock + vendored timer wheel, generative reference broker, seeded choice stream, choice-vector minimiser, replay files"}],
 "checks":checks,
 "not_applicable":na,
 "notes":"exit 0 held / 1 VIOLATION / 2 harness error. VERIF_SEED selects the seed (default 1). known_findings.json lists genuine defects (fixed ones suppress nothing)."
}
json.dump(m,open('/verif/MANIFEST.json','w'),indent=1)
print(len(checks),'claimed',len(na),'not claimed')
