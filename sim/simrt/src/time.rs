//! Simulated monotonic clock with the `std::time::Instant` surface amiquip uses.
use std::ops::{Add, Sub};
use std::time::Duration;

#[derive(Clone, Copy, Debug, PartialEq, Eq, PartialOrd, Ord, Hash)]
pub struct Instant {
    sim_ns: u64,
    real: Option<std::time::Instant>,
}

impl Instant {
    pub fn now() -> Instant {
        if crate::is_sim_thread() {
            Instant { sim_ns: crate::now_ns(), real: None }
        } else {
            Instant { sim_ns: 0, real: Some(std::time::Instant::now()) }
        }
    }
    pub fn elapsed(&self) -> Duration {
        Instant::now().duration_since(*self)
    }
    pub fn duration_since(&self, earlier: Instant) -> Duration {
        match (self.real, earlier.real) {
            (Some(a), Some(b)) => a.saturating_duration_since(b),
            _ => Duration::from_nanos(self.sim_ns.saturating_sub(earlier.sim_ns)),
        }
    }
    pub fn as_sim_ns(&self) -> u64 {
        self.sim_ns
    }
}

impl Add<Duration> for Instant {
    type Output = Instant;
    fn add(self, d: Duration) -> Instant {
        match self.real {
            Some(r) => Instant { sim_ns: 0, real: Some(r + d) },
            None => Instant { sim_ns: self.sim_ns + d.as_nanos() as u64, real: None },
        }
    }
}

impl Sub<Instant> for Instant {
    type Output = Duration;
    fn sub(self, o: Instant) -> Duration {
        self.duration_since(o)
    }
}

impl Sub<Duration> for Instant {
    type Output = Instant;
    fn sub(self, d: Duration) -> Instant {
        match self.real {
            Some(r) => Instant { sim_ns: 0, real: Some(r - d) },
            None => Instant { sim_ns: self.sim_ns.saturating_sub(d.as_nanos() as u64), real: None },
        }
    }
}
