//! `std::thread::{Builder, JoinHandle}` surface; threads are real OS threads
//! registered with the baton scheduler.
use std::io;
use std::panic::{catch_unwind, AssertUnwindSafe};

pub struct Builder {
    name: Option<String>,
    client: bool,
}

impl Builder {
    pub fn new() -> Builder {
        Builder { name: None, client: false }
    }
    pub fn name(mut self, name: String) -> Builder {
        self.name = Some(name);
        self
    }
    /// harness threads that model API callers (subject to the blocked-too-long rule)
    pub fn client(mut self, client: bool) -> Builder {
        self.client = client;
        self
    }
    pub fn spawn<F, T>(self, f: F) -> io::Result<JoinHandle<T>>
    where
        F: FnOnce() -> T + Send + 'static,
        T: Send + 'static,
    {
        let name = self.name.unwrap_or_else(|| "sim-thread".to_string());
        if !crate::is_sim_thread() {
            let h = std::thread::Builder::new().name(name).spawn(move || Ok(f()))?;
            return Ok(JoinHandle { inner: h, tid: None });
        }
        crate::yield_point("spawn");
        let tid = crate::register_thread(name.clone(), self.client);
        let gen = crate::current_generation();
        let h = std::thread::Builder::new().name(name).stack_size(2 << 20).spawn(move || {
            crate::thread_entry(tid, gen);
            let r = catch_unwind(AssertUnwindSafe(f));
            crate::thread_exit(tid);
            r
        })?;
        crate::set_os_handle(tid, h.thread().clone());
        Ok(JoinHandle { inner: h, tid: Some(tid) })
    }
}

impl Default for Builder {
    fn default() -> Self {
        Builder::new()
    }
}

pub struct JoinHandle<T> {
    inner: std::thread::JoinHandle<std::thread::Result<T>>,
    tid: Option<usize>,
}

impl<T> std::fmt::Debug for JoinHandle<T> {
    fn fmt(&self, f: &mut std::fmt::Formatter) -> std::fmt::Result {
        write!(f, "JoinHandle {{ .. }}")
    }
}

impl<T> JoinHandle<T> {
    pub fn join(self) -> std::thread::Result<T> {
        if let Some(tid) = self.tid {
            if crate::is_sim_thread() {
                crate::yield_point("join");
                while !crate::thread_is_finished(tid) {
                    crate::park_on("join", &[crate::Key::Join(tid)], None);
                }
            }
        }
        match self.inner.join() {
            Ok(r) => r,
            Err(e) => Err(e),
        }
    }
    pub fn sim_tid(&self) -> Option<usize> {
        self.tid
    }
    pub fn is_finished(&self) -> bool {
        match self.tid {
            Some(t) => crate::thread_is_finished(t),
            None => self.inner.is_finished(),
        }
    }
}

/// Spawn a harness client thread.
pub fn spawn_client<F, T>(name: &str, f: F) -> JoinHandle<T>
where
    F: FnOnce() -> T + Send + 'static,
    T: Send + 'static,
{
    Builder::new().name(name.to_string()).client(true).spawn(f).expect("spawn")
}
