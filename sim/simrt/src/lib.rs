//! amiquip_simrt — deterministic baton scheduler, simulated clock, event heap
//! and choice stream.  Real OS threads, exactly one runnable at a time; every
//! decision is drawn from one choice stream, so a run is a pure function of
//! (seed | choice vector) and the code under test.
//!
//! Outside a simulation (thread not registered) every wrapper falls back to
//! the real blocking behaviour, so the same binary can drive plain code.

pub mod choice;
pub mod collections;
pub mod poll;
pub mod thread;
pub mod time;

use std::any::Any;
use std::cell::Cell;
use std::cmp::Reverse;
use std::collections::{BinaryHeap, HashMap};
use std::sync::atomic::{AtomicU64, AtomicUsize, Ordering};
use std::sync::{Mutex, MutexGuard};

pub use choice::ChoiceStream;

/// What a blocked thread waits for.
#[derive(Clone, Copy, Debug, PartialEq, Eq, Hash)]
pub enum Key {
    /// a crossbeam / mio-extras channel (by deterministic object id)
    Chan(u64),
    /// something was made ready for a `Poll`
    Poll,
    /// thread exit
    Join(usize),
    /// harness-level condition
    User(u64),
}

pub type Payload = Box<dyn Any + Send>;

pub struct Event {
    pub at: u64,
    pub seq: u64,
    pub progress: bool,
    pub label: &'static str,
    pub payload: Payload,
}

struct HeapEntry {
    at: u64,
    seq: u64,
    progress: bool,
    label: &'static str,
    payload: Payload,
}
impl PartialEq for HeapEntry {
    fn eq(&self, o: &Self) -> bool {
        self.at == o.at && self.seq == o.seq
    }
}
impl Eq for HeapEntry {}
impl PartialOrd for HeapEntry {
    fn partial_cmp(&self, o: &Self) -> Option<std::cmp::Ordering> {
        Some(self.cmp(o))
    }
}
impl Ord for HeapEntry {
    fn cmp(&self, o: &Self) -> std::cmp::Ordering {
        (self.at, self.seq).cmp(&(o.at, o.seq))
    }
}

#[derive(Clone, Debug, PartialEq)]
enum TState {
    Runnable,
    Blocked { keys: Vec<(Key, u64)>, timed_out: bool },
    Finished,
}

struct TInfo {
    name: String,
    client: bool,
    state: TState,
    handle: Option<std::thread::Thread>,
    stalled_until: u64,
    blocked_since: u64,
    note: String,
    last_label: &'static str,
    wake_gen: u64,
    /// PCT priority (higher runs first); values below 1000 are the ones handed out at change points
    prio: u64,
}

/// Internal heap payloads owned by simrt itself.
enum Internal {
    /// deadline of a park_on
    Wake { tid: usize, gen: u64 },
    /// end of a directed stall (only there so the clock can jump to it)
    StallEnd,
    /// closure run by the controller (timer wheel wake-ups)
    Callback(Box<dyn FnOnce() + Send>),
}

#[derive(Clone, Debug, PartialEq)]
pub enum Outcome {
    /// every sim thread finished
    Finished,
    /// some thread can never run again (exact), or a client thread was blocked
    /// longer than `hang_after_ns` of simulated time
    Hang(Vec<HungThread>),
    /// step cap hit: inconclusive
    StepCap,
}

#[derive(Clone, Debug, PartialEq)]
pub struct HungThread {
    pub name: String,
    pub note: String,
    pub blocked_on: String,
    pub last_label: &'static str,
}

#[derive(Clone, Debug)]
pub struct SchedCfg {
    /// percent chance to keep running the current thread at a yield point
    pub stick_pct: u32,
    /// the thread named `amiquip-io` is only preempted inside `Poll::poll`
    pub io_atomic: bool,
    pub step_cap: u64,
    /// a client thread blocked this long (simulated) is a hang
    pub hang_after_ns: u64,
    /// per-mille chance that the I/O thread is descheduled at a poll
    pub io_stall_permille: u32,
    pub io_stall_max_ns: u64,
    /// per-mille chance that a client thread is descheduled at a yield point
    pub client_stall_permille: u32,
    pub client_stall_max_ns: u64,
    pub record_text: bool,
    /// PCT-style scheduling (Burckhardt et al.): when non-empty, every thread (and the stream of harness events)
    /// has a priority derived from the run's hash seed, the enabled candidate of highest priority always runs, and
    /// at each of these scheduler step numbers the thread that is running drops below everybody else.
    /// Empty = the uniform / sticky random scheduler.
    pub pct_points: Vec<u64>,
    pub pct: bool,
}

impl Default for SchedCfg {
    fn default() -> Self {
        SchedCfg {
            stick_pct: 50,
            io_atomic: false,
            step_cap: 400_000,
            hang_after_ns: 600_000_000_000,
            io_stall_permille: 0,
            io_stall_max_ns: 0,
            client_stall_permille: 0,
            client_stall_max_ns: 0,
            record_text: false,
            pct_points: Vec::new(),
            pct: false,
        }
    }
}

#[derive(Default, Clone, Debug)]
pub struct Stats {
    pub steps: u64,
    pub switches: u64,
    pub events: u64,
    pub clock_jumps: u64,
    pub io_stalls: u64,
    pub client_stalls: u64,
    pub max_poll_batch: u64,
    pub poll_batches: u64,
    pub poll_batch_sigs: Vec<u64>,
    pub pct_changes: u64,
    pub pct_run: u64,
}

pub struct Sim {
    threads: Vec<TInfo>,
    now: u64,
    heap: BinaryHeap<Reverse<HeapEntry>>,
    seq: u64,
    epochs: HashMap<Key, u64>,
    pub choices: ChoiceStream,
    cfg: SchedCfg,
    poisoned: bool,
    steps: u64,
    /// step at which something last moved (channel message, bytes on the transport, thread exit)
    last_progress_step: u64,
    current: usize,
    pending: Option<Event>,
    done: Option<Outcome>,
    trace_hash: u64,
    text: Vec<String>,
    next_obj: u64,
    pub stats: Stats,
    hash_seed: u64,
    io_exit_seq: Option<u64>,
    draining: bool,
    gates: Vec<u64>,
    pct_low: u64,
}

static SIM: Mutex<Option<Box<Sim>>> = Mutex::new(None);
static BATON: AtomicUsize = AtomicUsize::new(usize::MAX);
static GENERATION: AtomicU64 = AtomicU64::new(0);
static HASH_SEED: AtomicU64 = AtomicU64::new(0);

thread_local! {
    static TID: Cell<usize> = const { Cell::new(usize::MAX) };
    static TGEN: Cell<u64> = const { Cell::new(0) };
}

fn lock() -> MutexGuard<'static, Option<Box<Sim>>> {
    SIM.lock().unwrap_or_else(|e| e.into_inner())
}

#[inline]
pub fn is_sim_thread() -> bool {
    TID.with(|t| t.get()) != usize::MAX && TGEN.with(|g| g.get()) == GENERATION.load(Ordering::Relaxed)
}

#[inline]
fn my_tid() -> usize {
    TID.with(|t| t.get())
}

fn fnv(h: u64, x: u64) -> u64 {
    let mut h = h;
    for i in 0..8 {
        h ^= (x >> (i * 8)) & 0xff;
        h = h.wrapping_mul(0x100000001b3);
    }
    h
}

fn str_hash(s: &str) -> u64 {
    let mut h = 0xcbf29ce484222325u64;
    for b in s.bytes() {
        h ^= b as u64;
        h = h.wrapping_mul(0x100000001b3);
    }
    h
}

fn wait_for_baton(me: usize) {
    while BATON.load(Ordering::Acquire) != me {
        std::thread::park();
    }
}

impl Sim {
    fn epoch(&self, k: Key) -> u64 {
        *self.epochs.get(&k).unwrap_or(&0)
    }

    fn bump(&mut self, k: Key) {
        // a message moved through a channel, a thread ended, a harness condition changed: progress
        if !matches!(k, Key::Poll) {
            self.last_progress_step = self.steps;
        }
        *self.epochs.entry(k).or_insert(0) += 1;
    }

    fn enabled(&self, t: usize) -> bool {
        let ti = &self.threads[t];
        if self.now < ti.stalled_until && !self.poisoned {
            return false;
        }
        match &ti.state {
            TState::Runnable => true,
            TState::Finished => false,
            TState::Blocked { keys, timed_out } => {
                self.poisoned || *timed_out || keys.iter().any(|(k, e)| self.epoch(*k) != *e)
            }
        }
    }

    fn push_event(&mut self, at: u64, progress: bool, label: &'static str, payload: Payload) {
        self.seq += 1;
        let at = at.max(self.now);
        self.heap.push(Reverse(HeapEntry { at, seq: self.seq, progress, label, payload }));
    }

    fn note_text(&mut self, s: String) {
        if self.cfg.record_text {
            if self.text.len() < 200_000 {
                self.text.push(s);
            }
        }
    }

    fn hung_threads(&self) -> Vec<HungThread> {
        let mut v = Vec::new();
        for t in self.threads.iter().skip(1) {
            if t.state != TState::Finished {
                let blocked_on = match &t.state {
                    TState::Blocked { keys, .. } => format!("{:?}", keys.iter().map(|k| k.0).collect::<Vec<_>>()),
                    s => format!("{:?}", s),
                };
                v.push(HungThread {
                    name: t.name.clone(),
                    note: t.note.clone(),
                    blocked_on,
                    last_label: t.last_label,
                });
            }
        }
        v
    }

    /// Decide who runs next.  Returns Some(tid) for a thread, None when the
    /// controller must act (pending event or done is set).
    fn decide(&mut self, me: usize) -> Option<usize> {
        loop {
            self.steps += 1;
            self.stats.steps += 1;
            self.now += 1_000;
            if self.steps > self.cfg.step_cap && self.done.is_none() && !self.draining {
                // a run that is cut off while it still makes progress is inconclusive; one that has spun for
                // the whole second half of its budget without any (bytes moved, operation completed,
                // harness event) is a livelock and is reported like a hang
                if self.steps.saturating_sub(self.last_progress_step) > self.cfg.step_cap / 2 {
                    let mut v = self.hung_threads();
                    for t in v.iter_mut() {
                        t.note = format!("LIVELOCK: no progress for {} scheduler steps; {}", self.steps - self.last_progress_step, t.note);
                    }
                    self.done = Some(Outcome::Hang(v));
                } else {
                    self.done = Some(Outcome::StepCap);
                }
                return None;
            }
            // internal wake events that are due are applied eagerly: they are
            // not schedulable entities of their own
            let mut cands: Vec<usize> = Vec::with_capacity(8);
            if me != 0 && self.enabled(me) {
                cands.push(me);
            }
            let ev_due = self.heap.peek().map(|e| e.0.at <= self.now).unwrap_or(false);
            for t in 1..self.threads.len() {
                if t != me && self.enabled(t) {
                    cands.push(t);
                }
            }
            let all_finished = self.threads.iter().skip(1).all(|t| t.state == TState::Finished);
            if all_finished && (self.draining || self.threads.len() > 1) {
                if self.done.is_none() {
                    self.done = Some(Outcome::Finished);
                }
                return None;
            }
            // bounded-blocking hang rule
            if !self.poisoned {
                let limit = self.cfg.hang_after_ns;
                let now = self.now;
                let hung = self.threads.iter().skip(1).any(|t| {
                    t.client && matches!(t.state, TState::Blocked { .. }) && now.saturating_sub(t.blocked_since) > limit
                });
                if hung {
                    self.done = Some(Outcome::Hang(self.hung_threads()));
                    return None;
                }
            }
            let n = cands.len() + if ev_due { 1 } else { 0 };
            if n == 0 {
                // nothing can run now: jump the clock or declare the hang
                match self.heap.peek() {
                    Some(e) => {
                        let at = e.0.at;
                        let stall_min = self
                            .threads
                            .iter()
                            .skip(1)
                            .filter(|t| t.state != TState::Finished && t.stalled_until > self.now)
                            .map(|t| t.stalled_until)
                            .min();
                        let target = match stall_min {
                            Some(s) => s.min(at),
                            None => at,
                        };
                        if target > self.now {
                            self.now = target;
                            self.stats.clock_jumps += 1;
                        }
                        continue;
                    }
                    None => {
                        let stall_min = self
                            .threads
                            .iter()
                            .skip(1)
                            .filter(|t| t.state != TState::Finished && t.stalled_until > self.now)
                            .map(|t| t.stalled_until)
                            .min();
                        if let Some(s) = stall_min {
                            self.now = s;
                            self.stats.clock_jumps += 1;
                            continue;
                        }
                        self.done = Some(Outcome::Hang(self.hung_threads()));
                        return None;
                    }
                }
            }
            // PCT change point: the thread that was running drops below everybody else
            if self.cfg.pct && me != 0 && !self.draining && self.pct_low > 0 && self.cfg.pct_points.contains(&self.steps) {
                self.threads[me].prio = self.pct_low;
                self.pct_low -= 1;
                self.stats.pct_changes += 1;
            }
            // candidate order: current thread, the due event, other threads by id
            let mut idx = 0usize;
            if self.draining {
                // tear-down: no draws, plain round-robin so that nobody starves
                if ev_due {
                    idx = if !cands.is_empty() && cands[0] == me { 1 } else { 0 };
                } else if cands.len() > 1 && cands[0] == me {
                    // next thread after me in id order, wrapping
                    let next = cands.iter().skip(1).position(|t| *t > me).map(|p| p + 1).unwrap_or(1);
                    idx = next;
                }
            } else if n > 1 && self.cfg.pct {
                // PCT: no draw; priorities decide.  idx order is: me (if enabled), the due event, the other threads.
                let me_first = !cands.is_empty() && cands[0] == me;
                let ev_prio = match self.heap.peek() {
                    Some(e) if ev_due => 1000 + choice::mix(self.hash_seed, 0xe7e, e.0.seq) % 1_000_000,
                    _ => 0,
                };
                let mut best = (0u64, 0usize);
                let mut k = 0usize;
                if me_first {
                    best = (self.threads[me].prio + 1, 0);
                    k = 1;
                }
                if ev_due {
                    if ev_prio + 1 > best.0 {
                        best = (ev_prio + 1, k);
                    }
                    k += 1;
                }
                for c in cands.iter().skip(if me_first { 1 } else { 0 }) {
                    let p = self.threads[*c].prio + 1;
                    if p > best.0 {
                        best = (p, k);
                    }
                    k += 1;
                }
                idx = best.1;
            } else if n > 1 {
                let stick = if !cands.is_empty() && cands[0] == me {
                    let s = self.choices.choose("stick", 100);
                    s < self.cfg.stick_pct
                } else {
                    false
                };
                if !stick {
                    idx = self.choices.choose("sched", n as u32) as usize;
                }
            }
            // map idx to candidate
            let me_first = !cands.is_empty() && cands[0] == me;
            let pick_event;
            let pick_thread;
            if me_first {
                if idx == 0 {
                    pick_event = false;
                    pick_thread = Some(cands[0]);
                } else if ev_due && idx == 1 {
                    pick_event = true;
                    pick_thread = None;
                } else {
                    let j = idx - if ev_due { 1 } else { 0 };
                    pick_event = false;
                    pick_thread = Some(cands[j]);
                }
            } else if ev_due {
                if idx == 0 {
                    pick_event = true;
                    pick_thread = None;
                } else {
                    pick_event = false;
                    pick_thread = Some(cands[idx - 1]);
                }
            } else {
                pick_event = false;
                pick_thread = Some(cands[idx]);
            }
            if pick_event {
                let Reverse(e) = self.heap.pop().unwrap();
                self.trace_hash = fnv(self.trace_hash, 0xE000_0000_0000_0000 | e.seq);
                self.stats.events += 1;
                // internal events are applied here
                match e.payload.downcast::<Internal>() {
                    Ok(int) => match *int {
                        Internal::Wake { tid, gen } => {
                            if self.threads[tid].wake_gen == gen {
                                if let TState::Blocked { timed_out, .. } = &mut self.threads[tid].state {
                                    *timed_out = true;
                                }
                            }
                            continue;
                        }
                        Internal::StallEnd => continue,
                        Internal::Callback(f) => {
                            self.pending = Some(Event {
                                at: e.at,
                                seq: e.seq,
                                progress: e.progress,
                                label: e.label,
                                payload: Box::new(CallbackBox(Some(f))),
                            });
                            return None;
                        }
                    },
                    Err(payload) => {
                        if self.cfg.record_text {
                            let s = format!("[{:>10}us] event #{} {}", self.now / 1000, e.seq, e.label);
                            self.note_text(s);
                        }
                        self.pending =
                            Some(Event { at: e.at, seq: e.seq, progress: e.progress, label: e.label, payload });
                        return None;
                    }
                }
            }
            let t = pick_thread.unwrap();
            self.trace_hash = fnv(self.trace_hash, t as u64);
            if t != me {
                self.stats.switches += 1;
            }
            if let TState::Blocked { .. } = self.threads[t].state {
                self.threads[t].state = TState::Runnable;
                self.threads[t].wake_gen += 1;
            }
            self.current = t;
            return Some(t);
        }
    }
}

pub struct CallbackBox(Option<Box<dyn FnOnce() + Send>>);

/// Called by a sim thread holding the baton: decide and hand over.
fn dispatch_from_thread(mut g: MutexGuard<'static, Option<Box<Sim>>>, me: usize, wait: bool) {
    let sim = g.as_mut().expect("no simulation");
    let next = sim.decide(me);
    let target = next.unwrap_or(0);
    if target == me {
        return;
    }
    let h = sim.threads[target].handle.clone();
    BATON.store(target, Ordering::Release);
    drop(g);
    if let Some(h) = h {
        h.unpark();
    }
    if wait {
        wait_for_baton(me);
    }
}

// ---------------------------------------------------------------- public API

/// Create a simulation; the calling thread becomes the controller (tid 0).
pub fn start(choices: ChoiceStream, cfg: SchedCfg, hash_seed: u64) {
    let gen = GENERATION.fetch_add(1, Ordering::SeqCst) + 1;
    HASH_SEED.store(hash_seed, Ordering::SeqCst);
    let mut g = lock();
    let cfg_pct = cfg.pct;
    let ctl = TInfo {
        name: "controller".into(),
        client: false,
        state: TState::Runnable,
        handle: Some(std::thread::current()),
        stalled_until: 0,
        blocked_since: 0,
        note: String::new(),
        last_label: "",
        wake_gen: 0,
        prio: 0,
    };
    *g = Some(Box::new(Sim {
        threads: vec![ctl],
        now: 0,
        heap: BinaryHeap::new(),
        seq: 0,
        epochs: HashMap::new(),
        choices,
        cfg,
        poisoned: false,
        steps: 0,
        last_progress_step: 0,
        current: 0,
        pending: None,
        done: None,
        trace_hash: 0xcbf29ce484222325,
        text: Vec::new(),
        next_obj: 1,
        stats: Stats { pct_run: cfg_pct as u64, ..Stats::default() },
        hash_seed,
        io_exit_seq: None,
        draining: false,
        gates: Vec::new(),
        pct_low: 999,
    }));
    TID.with(|t| t.set(0));
    TGEN.with(|t| t.set(gen));
    BATON.store(0, Ordering::SeqCst);
}

pub struct Finished {
    pub choices: ChoiceStream,
    pub trace_hash: u64,
    pub text: Vec<String>,
    pub stats: Stats,
    pub sim_ns: u64,
}

/// Tear the simulation down (all threads must be finished) and return what it recorded.
pub fn finish() -> Finished {
    let mut g = lock();
    let sim = g.take().expect("no simulation");
    TID.with(|t| t.set(usize::MAX));
    GENERATION.fetch_add(1, Ordering::SeqCst);
    Finished {
        trace_hash: sim.trace_hash,
        text: sim.text,
        stats: sim.stats,
        sim_ns: sim.now,
        choices: sim.choices,
    }
}

/// Controller loop: run threads and deliver harness events to `handler` until
/// the run is over.
pub fn run<F: FnMut(Event)>(mut handler: F) -> Outcome {
    assert_eq!(my_tid(), 0, "run() must be called by the controller");
    loop {
        let mut g = lock();
        let sim = g.as_mut().expect("no simulation");
        if let Some(ev) = sim.pending.take() {
            drop(g);
            match ev.payload.downcast::<CallbackBox>() {
                Ok(mut cb) => {
                    if let Some(f) = cb.0.take() {
                        f()
                    }
                }
                Err(payload) => handler(Event { at: ev.at, seq: ev.seq, progress: ev.progress, label: ev.label, payload }),
            }
            continue;
        }
        if let Some(o) = sim.done.take() {
            return o;
        }
        match sim.decide(0) {
            Some(t) => {
                let h = sim.threads[t].handle.clone();
                BATON.store(t, Ordering::Release);
                drop(g);
                if let Some(h) = h {
                    h.unpark();
                }
                wait_for_baton(0);
            }
            None => continue,
        }
    }
}

/// After a hang / step cap / abort: make every blocking operation fail fast and
/// run until all threads are gone.  Returns false if they would not finish.
pub fn drain(max_steps: u64) -> bool {
    {
        let mut g = lock();
        let sim = g.as_mut().expect("no simulation");
        sim.poisoned = true;
        sim.draining = true;
        sim.steps = 0;
        sim.cfg.step_cap = u64::MAX;
        sim.done = None;
        for t in sim.threads.iter_mut() {
            t.stalled_until = 0;
        }
    }
    let start_steps = {
        let g = lock();
        g.as_ref().unwrap().stats.steps
    };
    loop {
        let mut g = lock();
        let sim = g.as_mut().unwrap();
        if let Some(ev) = sim.pending.take() {
            drop(g);
            if let Ok(mut cb) = ev.payload.downcast::<CallbackBox>() {
                if let Some(f) = cb.0.take() {
                    f()
                }
            }
            continue;
        }
        if sim.threads.iter().skip(1).all(|t| t.state == TState::Finished) {
            return true;
        }
        if sim.stats.steps - start_steps > max_steps {
            return false;
        }
        sim.done = None;
        match sim.decide(0) {
            Some(t) => {
                let h = sim.threads[t].handle.clone();
                BATON.store(t, Ordering::Release);
                drop(g);
                if let Some(h) = h {
                    h.unpark();
                }
                wait_for_baton(0);
            }
            None => {
                if let Some(Outcome::Hang(_)) = &sim.done {
                    // nothing enabled even though poisoned: cannot drain
                    if sim.pending.is_none() {
                        return false;
                    }
                }
                continue;
            }
        }
    }
}

/// Scheduling point: the current thread stays runnable but may be preempted.
pub fn yield_point(label: &'static str) {
    if !is_sim_thread() {
        return;
    }
    let me = my_tid();
    if me == 0 {
        return;
    }
    let mut g = lock();
    let sim = match g.as_mut() {
        Some(s) => s,
        None => return,
    };
    sim.threads[me].last_label = label;
    if sim.cfg.io_atomic && label != "poll" && sim.threads[me].name == "amiquip-io" {
        return;
    }
    if sim.draining {
        // keep going; fairness is irrelevant while draining
    }
    // directed stalls
    if !sim.poisoned {
        let is_io = sim.threads[me].name == "amiquip-io";
        if is_io && label == "poll" && sim.cfg.io_stall_permille > 0 {
            if sim.choices.choose("io_stall", 1000) < sim.cfg.io_stall_permille {
                let d = 1 + sim.choices.choose("io_stall_len", (sim.cfg.io_stall_max_ns / 1000).max(1) as u32) as u64 * 1000;
                sim.threads[me].stalled_until = sim.now + d;
                let at = sim.now + d;
                sim.push_event(at, true, "stall_end", Box::new(Internal::StallEnd));
                sim.stats.io_stalls += 1;
            }
        } else if !is_io && sim.threads[me].client && sim.cfg.client_stall_permille > 0 {
            if sim.choices.choose("cl_stall", 1000) < sim.cfg.client_stall_permille {
                let d = 1 + sim.choices.choose("cl_stall_len", (sim.cfg.client_stall_max_ns / 1000).max(1) as u32) as u64 * 1000;
                sim.threads[me].stalled_until = sim.now + d;
                let at = sim.now + d;
                sim.push_event(at, true, "stall_end", Box::new(Internal::StallEnd));
                sim.stats.client_stalls += 1;
            }
        }
    }
    dispatch_from_thread(g, me, true);
}

/// Block the current thread until one of `keys` has an effect (or the deadline
/// passes).  Returns true if the deadline passed.  The caller re-tries its
/// operation afterwards; spurious returns are allowed.
pub fn park_on(label: &'static str, keys: &[Key], deadline_ns: Option<u64>) -> bool {
    let me = my_tid();
    assert!(me != 0 && me != usize::MAX, "controller must not block");
    let mut g = lock();
    let sim = g.as_mut().expect("no simulation");
    if sim.poisoned {
        // never block while draining; yield so that others make progress too
        sim.threads[me].last_label = label;
        dispatch_from_thread(g, me, true);
        return true;
    }
    let ks: Vec<(Key, u64)> = keys.iter().map(|k| (*k, sim.epoch(*k))).collect();
    sim.threads[me].wake_gen += 1;
    let gen = sim.threads[me].wake_gen;
    sim.threads[me].state = TState::Blocked { keys: ks, timed_out: false };
    sim.threads[me].blocked_since = sim.now;
    sim.threads[me].last_label = label;
    if let Some(d) = deadline_ns {
        sim.push_event(d, true, "deadline", Box::new(Internal::Wake { tid: me, gen }));
    }
    dispatch_from_thread(g, me, true);
    // we have the baton again
    let g = lock();
    let sim = g.as_ref().unwrap();
    match deadline_ns {
        Some(d) => sim.now >= d,
        None => false,
    }
}

/// An effect on `key`: every thread parked on it becomes a candidate.
pub fn effect(key: Key) {
    if !is_sim_thread() {
        return;
    }
    let mut g = lock();
    if let Some(sim) = g.as_mut() {
        sim.bump(key);
    }
}

/// The harness reports that something moved (bytes accepted or delivered by the transport, a broker
/// event): used to tell a livelock from a long run when the step cap is hit.
pub fn note_progress() {
    let mut g = lock();
    if let Some(sim) = g.as_mut() {
        sim.last_progress_step = sim.steps;
    }
}

pub fn now_ns() -> u64 {
    let g = lock();
    g.as_ref().map(|s| s.now).unwrap_or(0)
}

pub fn poisoned() -> bool {
    let g = lock();
    g.as_ref().map(|s| s.poisoned).unwrap_or(false)
}

pub fn new_obj_id() -> u64 {
    if !is_sim_thread() {
        static OUTSIDE: AtomicU64 = AtomicU64::new(1 << 40);
        return OUTSIDE.fetch_add(1, Ordering::Relaxed);
    }
    let mut g = lock();
    let sim = g.as_mut().expect("no simulation");
    sim.next_obj += 1;
    sim.next_obj
}

/// Draw from the run's choice stream.
pub fn choose(label: &'static str, n: u32) -> u32 {
    let mut g = lock();
    let sim = g.as_mut().expect("no simulation");
    sim.choices.choose(label, n)
}

/// Schedule a harness event (delivered to the `run` handler on the controller).
pub fn schedule(at_ns: u64, progress: bool, label: &'static str, payload: Payload) {
    let mut g = lock();
    let sim = g.as_mut().expect("no simulation");
    sim.push_event(at_ns, progress, label, payload);
}

pub fn schedule_in(delay_ns: u64, progress: bool, label: &'static str, payload: Payload) {
    let mut g = lock();
    let sim = g.as_mut().expect("no simulation");
    let at = sim.now + delay_ns;
    sim.push_event(at, progress, label, payload);
}

/// Schedule a closure run by the controller at `at_ns` (used by the timer wheel).
pub fn schedule_callback(at_ns: u64, progress: bool, label: &'static str, f: Box<dyn FnOnce() + Send>) {
    let mut g = lock();
    if let Some(sim) = g.as_mut() {
        sim.push_event(at_ns, progress, label, Box::new(Internal::Callback(f)));
    }
}

/// Mix a harness observation into the trace hash (and the text trace).
pub fn trace(tag: &str, a: u64, b: u64) {
    let mut g = lock();
    if let Some(sim) = g.as_mut() {
        sim.trace_hash = fnv(fnv(fnv(sim.trace_hash, str_hash(tag)), a), b);
        if sim.cfg.record_text {
            let who = sim.threads.get(sim.current).map(|t| t.name.clone()).unwrap_or_default();
            let s = format!("[{:>10}us] {:<12} {} {} {}", sim.now / 1000, who, tag, a, b);
            sim.note_text(s);
        }
    }
}

pub fn trace_text(f: impl FnOnce() -> String) {
    let mut g = lock();
    if let Some(sim) = g.as_mut() {
        if sim.cfg.record_text {
            let who = sim.threads.get(sim.current).map(|t| t.name.clone()).unwrap_or_default();
            let s = format!("[{:>10}us] {:<12} {}", sim.now / 1000, who, f());
            sim.note_text(s);
        }
    }
}

/// Human-readable description of what the current thread is doing (shown in hang reports).
pub fn set_note(s: String) {
    if !is_sim_thread() {
        return;
    }
    let me = my_tid();
    let mut g = lock();
    if let Some(sim) = g.as_mut() {
        if me < sim.threads.len() {
            sim.threads[me].note = s;
        }
    }
}

/// Global event sequence number (monotone over scheduling steps): used to stamp histories.
pub fn stamp() -> u64 {
    let g = lock();
    g.as_ref().map(|s| s.stats.steps).unwrap_or(0)
}

pub fn hash_seed() -> u64 {
    HASH_SEED.load(Ordering::Relaxed)
}

pub fn stats() -> Stats {
    let g = lock();
    g.as_ref().map(|s| s.stats.clone()).unwrap_or_default()
}

pub fn record_poll_batch(sig: u64, len: u64) {
    let mut g = lock();
    if let Some(sim) = g.as_mut() {
        sim.stats.poll_batches += 1;
        if len > sim.stats.max_poll_batch {
            sim.stats.max_poll_batch = len;
        }
        if sim.stats.poll_batch_sigs.len() < 4096 && !sim.stats.poll_batch_sigs.contains(&sig) {
            sim.stats.poll_batch_sigs.push(sig);
        }
        sim.trace_hash = fnv(sim.trace_hash, sig);
    }
}

/// Step stamp at which the thread named `amiquip-io` finished, if it has.
pub fn io_thread_exit_stamp() -> Option<u64> {
    let g = lock();
    g.as_ref().and_then(|s| s.io_exit_seq)
}

pub fn thread_finished_by_name(name: &str) -> Option<bool> {
    let g = lock();
    let sim = g.as_ref()?;
    let mut found = None;
    for t in sim.threads.iter().skip(1) {
        if t.name == name {
            found = Some(t.state == TState::Finished);
        }
    }
    found
}

/// Deschedule the named thread until `until_ns` (directed stall by the harness).
pub fn stall_thread_named(name: &str, until_ns: u64) {
    let mut g = lock();
    if let Some(sim) = g.as_mut() {
        let mut any = false;
        for t in sim.threads.iter_mut().skip(1) {
            if t.name == name && t.state != TState::Finished {
                t.stalled_until = until_ns;
                any = true;
            }
        }
        if any {
            sim.push_event(until_ns, true, "stall_end", Box::new(Internal::StallEnd));
        }
    }
}

pub fn unstall_all() {
    let mut g = lock();
    if let Some(sim) = g.as_mut() {
        for t in sim.threads.iter_mut() {
            t.stalled_until = 0;
        }
    }
}

// ----------------------------------------------------------- thread plumbing

pub(crate) fn register_thread(name: String, client: bool) -> usize {
    let mut g = lock();
    let sim = g.as_mut().expect("no simulation");
    sim.threads.push(TInfo {
        name,
        client,
        state: TState::Runnable,
        handle: None,
        stalled_until: 0,
        blocked_since: 0,
        note: String::new(),
        last_label: "spawned",
        wake_gen: 0,
        prio: 0,
    });
    let tid = sim.threads.len() - 1;
    sim.threads[tid].prio = 1000 + choice::mix(sim.hash_seed, 0x9c7, tid as u64) % 1_000_000;
    sim.threads.len() - 1
}

pub(crate) fn thread_entry(tid: usize, gen: u64) {
    TID.with(|t| t.set(tid));
    TGEN.with(|t| t.set(gen));
    {
        let mut g = lock();
        if let Some(sim) = g.as_mut() {
            sim.threads[tid].handle = Some(std::thread::current());
        }
    }
    wait_for_baton(tid);
}

pub(crate) fn set_os_handle(tid: usize, h: std::thread::Thread) {
    let mut g = lock();
    if let Some(sim) = g.as_mut() {
        sim.threads[tid].handle = Some(h);
    }
}

pub(crate) fn thread_exit(tid: usize) {
    let mut g = lock();
    let sim = g.as_mut().expect("no simulation");
    sim.threads[tid].state = TState::Finished;
    sim.bump(Key::Join(tid));
    if sim.threads[tid].name == "amiquip-io" {
        sim.io_exit_seq = Some(sim.stats.steps);
    }
    TID.with(|t| t.set(usize::MAX));
    dispatch_from_thread(g, tid, false);
}

pub(crate) fn thread_is_finished(tid: usize) -> bool {
    let g = lock();
    g.as_ref().map(|s| s.threads[tid].state == TState::Finished).unwrap_or(true)
}

pub(crate) fn current_generation() -> u64 {
    GENERATION.load(Ordering::SeqCst)
}

// ------------------------------------------------------------- panic capture

#[derive(Clone, Debug)]
pub struct PanicRecord {
    pub thread: String,
    pub message: String,
    pub location: String,
}

static PANICS: Mutex<Vec<PanicRecord>> = Mutex::new(Vec::new());

/// Install a process-wide hook that records panics instead of printing them.
/// Payload of a panic the harness raises on purpose (an application panic that the application catches, so that
/// values go out of scope while their thread is unwinding): the hook does not record it.
pub struct DeliberateUnwind;

pub fn install_panic_hook(print: bool) {
    std::panic::set_hook(Box::new(move |info| {
        if info.payload().downcast_ref::<DeliberateUnwind>().is_some() {
            return;
        }
        let thread = std::thread::current().name().unwrap_or("?").to_string();
        let message = if let Some(s) = info.payload().downcast_ref::<&str>() {
            s.to_string()
        } else if let Some(s) = info.payload().downcast_ref::<String>() {
            s.clone()
        } else {
            "<non-string panic>".to_string()
        };
        let location = info.location().map(|l| format!("{}:{}", l.file(), l.line())).unwrap_or_default();
        if print {
            eprintln!("PANIC thread={} at {}: {}", thread, location, message);
        }
        PANICS.lock().unwrap_or_else(|e| e.into_inner()).push(PanicRecord { thread, message, location });
    }));
}

pub fn take_panics() -> Vec<PanicRecord> {
    std::mem::take(&mut *PANICS.lock().unwrap_or_else(|e| e.into_inner()))
}

/// Block the current sim thread for `ns` of simulated time.
pub fn sleep_ns(ns: u64) {
    if !is_sim_thread() || my_tid() == 0 {
        return;
    }
    let deadline = now_ns() + ns;
    loop {
        if poisoned() || now_ns() >= deadline {
            return;
        }
        park_on("sleep", &[], Some(deadline));
    }
}

/// Harness gates: a sim thread waits until the controller opens the gate.
pub fn gate_open(id: u64) {
    let mut g = lock();
    if let Some(sim) = g.as_mut() {
        if !sim.gates.contains(&id) {
            sim.gates.push(id);
        }
        sim.bump(Key::User(id));
    }
}

pub fn gate_is_open(id: u64) -> bool {
    let g = lock();
    g.as_ref().map(|s| s.gates.contains(&id)).unwrap_or(true)
}

pub fn gate_wait(id: u64) {
    if !is_sim_thread() || my_tid() == 0 {
        return;
    }
    loop {
        if gate_is_open(id) || poisoned() {
            return;
        }
        park_on("gate", &[Key::User(id)], None);
    }
}
