//! The single source of variation of a run.

#[derive(Clone, Debug)]
pub struct Xoshiro(pub [u64; 4]);

impl Xoshiro {
    pub fn from_seed(seed: u64) -> Xoshiro {
        // splitmix64 expansion
        let mut z = seed;
        let mut s = [0u64; 4];
        for x in s.iter_mut() {
            z = z.wrapping_add(0x9e3779b97f4a7c15);
            let mut y = z;
            y = (y ^ (y >> 30)).wrapping_mul(0xbf58476d1ce4e5b9);
            y = (y ^ (y >> 27)).wrapping_mul(0x94d049bb133111eb);
            *x = y ^ (y >> 31);
        }
        Xoshiro(s)
    }
    pub fn next_u64(&mut self) -> u64 {
        let s = &mut self.0;
        let result = s[1].wrapping_mul(5).rotate_left(7).wrapping_mul(9);
        let t = s[1] << 17;
        s[2] ^= s[0];
        s[3] ^= s[1];
        s[1] ^= s[2];
        s[0] ^= s[3];
        s[2] ^= t;
        s[3] = s[3].rotate_left(45);
        result
    }
}

pub fn mix(a: u64, b: u64, c: u64) -> u64 {
    let mut x = Xoshiro::from_seed(a ^ b.rotate_left(21) ^ c.rotate_left(42) ^ 0x5851f42d4c957f2d);
    x.next_u64() ^ a.wrapping_mul(0x9e3779b97f4a7c15) ^ b.wrapping_mul(0xc2b2ae3d27d4eb4f) ^ c
}

#[derive(Clone, Debug)]
enum Mode {
    Generate(Xoshiro),
    Replay { vec: Vec<u32>, pos: usize },
}

#[derive(Clone, Debug)]
pub struct ChoiceStream {
    mode: Mode,
    pub record: Vec<u32>,
    pub labels: Option<Vec<(&'static str, u32)>>,
    pub draws: u64,
}

impl ChoiceStream {
    pub fn generate(seed: u64) -> ChoiceStream {
        ChoiceStream { mode: Mode::Generate(Xoshiro::from_seed(seed)), record: Vec::new(), labels: None, draws: 0 }
    }
    pub fn replay(vec: Vec<u32>) -> ChoiceStream {
        ChoiceStream { mode: Mode::Replay { vec, pos: 0 }, record: Vec::new(), labels: None, draws: 0 }
    }
    pub fn with_labels(mut self) -> ChoiceStream {
        self.labels = Some(Vec::new());
        self
    }
    /// 0..n ; 0 is by convention the simplest choice.  n == 0 or 1 draws nothing.
    pub fn choose(&mut self, label: &'static str, n: u32) -> u32 {
        if n <= 1 {
            return 0;
        }
        self.draws += 1;
        let v = match &mut self.mode {
            Mode::Generate(r) => (r.next_u64() % n as u64) as u32,
            Mode::Replay { vec, pos } => {
                let v = if *pos < vec.len() { vec[*pos] % n } else { 0 };
                *pos += 1;
                v
            }
        };
        self.record.push(v);
        if let Some(l) = &mut self.labels {
            l.push((label, n));
        }
        v
    }
    /// true with probability num/den
    pub fn chance(&mut self, label: &'static str, num: u32, den: u32) -> bool {
        // encoded so that 0 = "no"
        let v = self.choose(label, den);
        v >= den - num.min(den) && num > 0
    }
}
