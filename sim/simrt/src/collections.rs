//! `HashMap` whose iteration order is a function of the run seed instead of
//! the process-random `RandomState`.
use std::collections::hash_map::DefaultHasher;
use std::hash::{BuildHasher, Hash, Hasher};
use std::ops::{Deref, DerefMut};

#[derive(Clone)]
pub struct SeededState(u64);

impl BuildHasher for SeededState {
    type Hasher = DefaultHasher;
    fn build_hasher(&self) -> DefaultHasher {
        let mut h = DefaultHasher::new();
        h.write_u64(self.0);
        h
    }
}

pub struct HashMap<K, V>(std::collections::HashMap<K, V, SeededState>);

impl<K: Eq + Hash, V> HashMap<K, V> {
    pub fn new() -> Self {
        HashMap(std::collections::HashMap::with_hasher(SeededState(crate::hash_seed())))
    }
}

impl<K: Eq + Hash, V> Default for HashMap<K, V> {
    fn default() -> Self {
        Self::new()
    }
}

impl<K, V> Deref for HashMap<K, V> {
    type Target = std::collections::HashMap<K, V, SeededState>;
    fn deref(&self) -> &Self::Target {
        &self.0
    }
}

impl<K, V> DerefMut for HashMap<K, V> {
    fn deref_mut(&mut self) -> &mut Self::Target {
        &mut self.0
    }
}
