//! `mio::Poll` newtype: registration goes to the real mio readiness queue; the
//! only change is that `poll` never sleeps in the kernel — it drains the real
//! queue with a zero timeout and parks in the simulator when it is empty.
use mio::{Evented, Events, PollOpt, Ready, Token};
use std::io;
use std::time::Duration;

pub struct Poll(mio::Poll);

impl Poll {
    pub fn new() -> io::Result<Poll> {
        Ok(Poll(mio::Poll::new()?))
    }
    pub fn register<E: ?Sized + Evented>(&self, handle: &E, token: Token, interest: Ready, opts: PollOpt) -> io::Result<()> {
        self.0.register(handle, token, interest, opts)?;
        crate::effect(crate::Key::Poll);
        Ok(())
    }
    pub fn reregister<E: ?Sized + Evented>(&self, handle: &E, token: Token, interest: Ready, opts: PollOpt) -> io::Result<()> {
        self.0.reregister(handle, token, interest, opts)?;
        crate::effect(crate::Key::Poll);
        Ok(())
    }
    pub fn deregister<E: ?Sized + Evented>(&self, handle: &E) -> io::Result<()> {
        self.0.deregister(handle)
    }
    pub fn poll(&self, events: &mut Events, timeout: Option<Duration>) -> io::Result<usize> {
        if !crate::is_sim_thread() {
            return self.0.poll(events, timeout);
        }
        crate::yield_point("poll");
        // real epoll_wait never returns early; `elapsed() > timeout` in callers is strict
        let deadline = timeout.map(|t| {
            let eps = 1_000 + crate::choose("poll_eps", 1000) as u64 * 1_000;
            crate::now_ns() + t.as_nanos() as u64 + eps
        });
        loop {
            let n = self.0.poll(events, Some(Duration::from_millis(0)))?;
            if n > 0 {
                let mut sig = 0xcbf29ce484222325u64;
                for ev in events.iter() {
                    sig ^= (ev.token().0 as u64) << 8 | ev.readiness().as_usize() as u64;
                    sig = sig.wrapping_mul(0x100000001b3);
                }
                crate::record_poll_batch(sig, n as u64);
                return Ok(n);
            }
            if crate::poisoned() {
                return Err(io::Error::new(io::ErrorKind::Other, "simulation is being torn down"));
            }
            if let Some(d) = deadline {
                if crate::now_ns() >= d {
                    return Ok(0);
                }
            }
            crate::park_on("poll", &[crate::Key::Poll], deadline);
        }
    }
}
