//! SimStream: a non-blocking TCP socket as mio 0.6 exposes it, on top of a real
//! `mio::Registration`.  The simulator decides every short write, would-block,
//! segment boundary, EOF and error.
use amiquip_simrt as simrt;
use mio::{Evented, Poll, PollOpt, Ready, Registration, SetReadiness, Token};
use std::collections::VecDeque;
use std::io::{self, Read, Write};
use std::sync::{Arc, Mutex};

#[derive(Clone, Debug, Default)]
pub struct NetCfg {
    /// per-mille of write() calls that accept only a prefix
    pub wr_short_permille: u32,
    /// per-mille of write() calls that would-block (socket buffer full)
    pub wr_block_permille: u32,
    /// max duration of a would-block episode
    pub wr_block_max_ns: u64,
    /// per-mille of read() calls that return fewer bytes than available
    pub rd_short_permille: u32,
    /// client->server latency bounds
    pub c2s_lat_min_ns: u64,
    pub c2s_lat_max_ns: u64,
    /// hard cap on bytes accepted per write call (0 = none)
    pub wr_cap: usize,
    /// which io::ErrorKind an injected transport failure reports (index into ERR_KINDS; 0 = the usual
    /// ConnectionReset on reads / BrokenPipe on writes)
    pub err_kind: usize,
}

/// Error kinds a dying transport may report: none of them means "try again later".
pub const ERR_KINDS: [io::ErrorKind; 8] = [
    io::ErrorKind::ConnectionReset,
    io::ErrorKind::TimedOut,
    io::ErrorKind::ConnectionAborted,
    io::ErrorKind::BrokenPipe,
    io::ErrorKind::NotConnected,
    io::ErrorKind::UnexpectedEof,
    io::ErrorKind::PermissionDenied,
    io::ErrorKind::Other,
];

#[derive(Clone, Debug, Default)]
pub struct NetStats {
    pub writes: u64,
    pub short_writes: u64,
    pub short_write_inside_frame: u64,
    pub would_block_writes: u64,
    pub would_block_at_frame_start: u64,
    pub would_block_inside_frame: u64,
    pub reads: u64,
    pub short_reads: u64,
    pub would_block_reads: u64,
    pub segments_in: u64,
    pub bytes_in: u64,
    pub bytes_out: u64,
    pub eof_injected: u64,
    pub rd_err_injected: u64,
    pub wr_err_injected: u64,
    pub stalls: u64,
    pub spurious_wakeups: u64,
}

#[derive(Clone, Debug)]
pub struct WriteRec {
    pub offset: usize,
    pub len: usize,
    pub stamp: u64,
    pub time_ns: u64,
}

pub struct NetState {
    pub cfg: NetCfg,
    pub inbound: VecDeque<u8>,
    pub rd_eof: bool,
    pub rd_err: Option<io::ErrorKind>,
    /// fail the write call with this number (1-based, counted over successful+failed calls that reach the kernel)
    pub wr_err_at_call: Option<u64>,
    pub wr_err: Option<io::ErrorKind>,
    pub wr_blocked: bool,
    /// externally imposed stall: writes would-block until cleared
    pub stalled: bool,
    pub set_readiness: Option<SetReadiness>,
    /// every byte the transport accepted from the client
    pub c2s: Vec<u8>,
    pub writes: Vec<WriteRec>,
    pub write_calls: u64,
    /// bytes of c2s already handed to the broker
    pub delivered_to_broker: usize,
    pub last_c2s_at: u64,
    pub dropped: bool,
    pub dropped_stamp: u64,
    pub dropped_ns: u64,
    pub registered: bool,
    pub stats: NetStats,
    /// total bytes ever pushed into inbound (for stamping last inbound time)
    pub last_inbound_ns: u64,
    /// (arrival time, cumulative bytes arrived) per server->client segment
    pub arrivals: Vec<(u64, usize)>,
    pub read_total: usize,
    /// frame boundaries of c2s as tracked by a running envelope scan (for probes)
    scan_pos: usize,
    scan_next_frame_at: usize,
}

pub type Net = Arc<Mutex<NetState>>;

pub fn new_net(cfg: NetCfg) -> Net {
    Arc::new(Mutex::new(NetState {
        cfg,
        inbound: VecDeque::new(),
        rd_eof: false,
        rd_err: None,
        wr_err_at_call: None,
        wr_err: None,
        wr_blocked: false,
        stalled: false,
        set_readiness: None,
        c2s: Vec::new(),
        writes: Vec::new(),
        write_calls: 0,
        delivered_to_broker: 0,
        last_c2s_at: 0,
        dropped: false,
        dropped_stamp: 0,
        dropped_ns: 0,
        registered: false,
        stats: NetStats::default(),
        last_inbound_ns: 0,
        arrivals: Vec::new(),
        read_total: 0,
        scan_pos: 0,
        scan_next_frame_at: 8,
    }))
}

impl NetState {
    fn readiness(&self) -> Ready {
        let mut r = Ready::empty();
        if !self.inbound.is_empty() || self.rd_eof || self.rd_err.is_some() {
            r |= Ready::readable();
        }
        if (!self.wr_blocked && !self.stalled) || self.wr_err.is_some() {
            r |= Ready::writable();
        }
        r
    }

    /// (Re)announce readiness: a fresh edge, as epoll-ET gives on every arrival.
    pub fn announce(&self) {
        if let Some(sr) = &self.set_readiness {
            let _ = sr.set_readiness(self.readiness());
            simrt::effect(simrt::Key::Poll);
        }
    }

    /// position of `offset` relative to frame boundaries of the outgoing stream:
    /// true if strictly inside a frame (or inside the protocol header)
    fn inside_frame(&mut self, offset: usize) -> bool {
        // advance scan over complete frame headers seen so far
        loop {
            if self.scan_next_frame_at > offset {
                break;
            }
            let p = self.scan_next_frame_at;
            if self.c2s.len() < p + 7 {
                // header of that frame not complete yet: offset == p means at boundary
                break;
            }
            let size = u32::from_be_bytes([self.c2s[p + 3], self.c2s[p + 4], self.c2s[p + 5], self.c2s[p + 6]]) as usize;
            self.scan_pos = p;
            self.scan_next_frame_at = p + size + 8;
        }
        // offset is a boundary iff it equals scan_next_frame_at or scan_pos
        !(offset == self.scan_next_frame_at || offset == self.scan_pos)
    }
}

#[derive(Debug)]
pub enum NetEv {
    /// bytes of the client->server stream up to this offset reach the broker
    C2S { upto: usize },
    /// a server->client segment arrives at the client's socket
    S2C { bytes: Vec<u8> },
    /// the socket becomes writable again
    Writable,
    /// server->client EOF / reset arrives
    S2CEof,
    S2CReset,
    /// a spurious wake-up (legal for mio)
    Spurious,
}

pub struct SimStream {
    net: Net,
    registration: Registration,
}

impl SimStream {
    pub fn new(net: Net) -> SimStream {
        let (registration, set_readiness) = Registration::new2();
        net.lock().unwrap().set_readiness = Some(set_readiness);
        SimStream { net, registration }
    }
}

impl Drop for SimStream {
    fn drop(&mut self) {
        let mut n = self.net.lock().unwrap();
        n.dropped = true;
        n.dropped_stamp = simrt::stamp();
        n.dropped_ns = simrt::now_ns();
        n.set_readiness = None;
        simrt::trace("stream.drop", 0, 0);
    }
}

impl Read for SimStream {
    fn read(&mut self, buf: &mut [u8]) -> io::Result<usize> {
        simrt::yield_point("stream.read");
        if simrt::poisoned() {
            // tear-down after a hang / livelock verdict: every loop around the transport must end
            return Err(io::Error::new(io::ErrorKind::ConnectionAborted, "simulation is being torn down"));
        }
        let mut n = self.net.lock().unwrap();
        n.stats.reads += 1;
        if n.inbound.is_empty() {
            if let Some(k) = n.rd_err {
                simrt::trace("read.err", 0, 0);
                return Err(io::Error::new(k, "simulated read error"));
            }
            if n.rd_eof {
                simrt::trace("read.eof", 0, 0);
                return Ok(0);
            }
            n.stats.would_block_reads += 1;
            // clear the readable bit
            if let Some(sr) = &n.set_readiness {
                let _ = sr.set_readiness(n.readiness());
            }
            simrt::trace("read.wouldblock", 0, 0);
            return Err(io::Error::new(io::ErrorKind::WouldBlock, "would block"));
        }
        let mut k = buf.len().min(n.inbound.len());
        if k > 1 && n.cfg.rd_short_permille > 0 {
            let v = simrt::choose("rd_short", 1000);
            if v >= 1000 - n.cfg.rd_short_permille {
                k = 1 + simrt::choose("rd_short_len", (k - 1) as u32) as usize;
                n.stats.short_reads += 1;
            }
        }
        for b in buf.iter_mut().take(k) {
            *b = n.inbound.pop_front().unwrap();
        }
        n.read_total += k;
        simrt::note_progress();
        simrt::trace("read", k as u64, n.read_total as u64);
        Ok(k)
    }
}

impl Write for SimStream {
    fn write(&mut self, buf: &[u8]) -> io::Result<usize> {
        simrt::yield_point("stream.write");
        if simrt::poisoned() {
            return Err(io::Error::new(io::ErrorKind::ConnectionAborted, "simulation is being torn down"));
        }
        let mut n = self.net.lock().unwrap();
        if buf.is_empty() {
            return Ok(0);
        }
        n.write_calls += 1;
        n.stats.writes += 1;
        if let Some(at) = n.wr_err_at_call {
            if n.write_calls >= at && n.wr_err.is_none() {
                let k = if n.cfg.err_kind == 0 { io::ErrorKind::BrokenPipe } else { ERR_KINDS[n.cfg.err_kind % ERR_KINDS.len()] };
                n.wr_err = Some(k);
                n.stats.wr_err_injected += 1;
            }
        }
        if let Some(k) = n.wr_err {
            simrt::trace("write.err", 0, 0);
            return Err(io::Error::new(k, "simulated write error"));
        }
        let offset = n.c2s.len();
        let mut block = n.wr_blocked || n.stalled;
        let mut take = buf.len();
        if !block {
            let (bp, sp) = (n.cfg.wr_block_permille, n.cfg.wr_short_permille);
            if bp + sp > 0 {
                let v = simrt::choose("wr", 1000);
                if v >= 1000 - bp {
                    block = true;
                    n.wr_blocked = true;
                    let max_us = (n.cfg.wr_block_max_ns / 1000).max(1) as u32;
                    let d = 1_000 + simrt::choose("wr_block_len", max_us) as u64 * 1000;
                    simrt::schedule_in(d, true, "net.writable", Box::new(NetEv::Writable));
                } else if v >= 1000 - bp - sp && take > 1 {
                    take = 1 + simrt::choose("wr_short_len", (take - 1) as u32) as usize;
                }
            }
            if n.cfg.wr_cap > 0 && take > n.cfg.wr_cap {
                take = n.cfg.wr_cap;
            }
        }
        if block {
            n.stats.would_block_writes += 1;
            if n.inside_frame(offset) {
                n.stats.would_block_inside_frame += 1;
            } else {
                n.stats.would_block_at_frame_start += 1;
            }
            if let Some(sr) = &n.set_readiness {
                let _ = sr.set_readiness(n.readiness());
            }
            simrt::trace("write.wouldblock", offset as u64, buf.len() as u64);
            return Err(io::Error::new(io::ErrorKind::WouldBlock, "would block"));
        }
        n.c2s.extend_from_slice(&buf[..take]);
        simrt::note_progress();
        let stamp = simrt::stamp();
        let now = simrt::now_ns();
        n.writes.push(WriteRec { offset, len: take, stamp, time_ns: now });
        n.stats.bytes_out += take as u64;
        if take < buf.len() {
            n.stats.short_writes += 1;
            let end = offset + take;
            if n.inside_frame(end) {
                n.stats.short_write_inside_frame += 1;
            }
        }
        // deliver to the broker after latency, FIFO
        let lat = if n.cfg.c2s_lat_max_ns > n.cfg.c2s_lat_min_ns {
            let span_us = ((n.cfg.c2s_lat_max_ns - n.cfg.c2s_lat_min_ns) / 1000).max(1) as u32;
            n.cfg.c2s_lat_min_ns + simrt::choose("c2s_lat", span_us) as u64 * 1000
        } else {
            n.cfg.c2s_lat_min_ns
        };
        let at = (now + lat).max(n.last_c2s_at);
        n.last_c2s_at = at;
        let upto = n.c2s.len();
        simrt::schedule(at, true, "net.c2s", Box::new(NetEv::C2S { upto }));
        simrt::trace("write", offset as u64, take as u64);
        Ok(take)
    }

    fn flush(&mut self) -> io::Result<()> {
        Ok(())
    }
}

impl Evented for SimStream {
    fn register(&self, poll: &Poll, token: Token, interest: Ready, opts: PollOpt) -> io::Result<()> {
        self.registration.register(poll, token, interest, opts)?;
        let mut n = self.net.lock().unwrap();
        n.registered = true;
        n.announce();
        Ok(())
    }
    fn reregister(&self, poll: &Poll, token: Token, interest: Ready, opts: PollOpt) -> io::Result<()> {
        self.registration.reregister(poll, token, interest, opts)
    }
    fn deregister(&self, poll: &Poll) -> io::Result<()> {
        #[allow(deprecated)]
        self.registration.deregister(poll)
    }
}

impl amiquip::IoStream for SimStream {}
