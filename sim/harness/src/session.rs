//! A whole client session as data (plan) and its execution on simulator threads.
use crate::broker::BrokerCfg;
use crate::client::*;
use crate::stream::NetCfg;
use crate::world::{run_sim, RunResult, World};
use amiquip::{Auth, Connection, ConnectionOptions, ConnectionTuning};
use amiquip_simrt as simrt;
use simrt::{ChoiceStream, SchedCfg};
use std::sync::{Arc, Mutex};
use std::time::Duration;

#[derive(Clone, Debug, PartialEq)]
pub struct ConnOpts {
    pub external: bool,
    pub user: String,
    pub pass: String,
    pub vhost: String,
    pub locale: String,
    pub channel_max: u16,
    pub frame_max: u32,
    pub heartbeat: u16,
    pub timeout_ms: Option<u64>,
    pub information: Option<String>,
}

impl Default for ConnOpts {
    fn default() -> Self {
        ConnOpts {
            external: false,
            user: "guest".into(),
            pass: "guest".into(),
            vhost: "/".into(),
            locale: "en_US".into(),
            channel_max: 0,
            frame_max: 0,
            heartbeat: 0,
            timeout_ms: None,
            information: None,
        }
    }
}

impl ConnOpts {
    pub fn to_amiquip(&self) -> ConnectionOptions<Auth> {
        let auth = if self.external { Auth::External } else { Auth::Plain { username: self.user.clone(), password: self.pass.clone() } };
        ConnectionOptions::default()
            .auth(auth)
            .virtual_host(self.vhost.clone())
            .locale(self.locale.clone())
            .channel_max(self.channel_max)
            .frame_max(self.frame_max)
            .heartbeat(self.heartbeat)
            .connection_timeout(self.timeout_ms.map(Duration::from_millis))
            .information(self.information.clone())
    }
}

#[derive(Clone, Debug, PartialEq)]
pub struct Tuning {
    pub bound: usize,
    pub high: usize,
    pub low: usize,
}

impl Default for Tuning {
    fn default() -> Self {
        Tuning { bound: 16, high: 16 << 20, low: 0 }
    }
}

#[derive(Clone, Debug, PartialEq)]
pub struct ThreadPlan {
    pub chan_ids: Vec<Option<u16>>,
    pub ops: Vec<(usize, Op)>,
    pub close_channels: bool,
}

#[derive(Clone, Debug, PartialEq)]
pub enum OwnerOp {
    /// open a channel and close it again right away (or keep it until the end)
    OpenChannel { id: Option<u16>, keep: bool },
    CloseKept { nth: usize },
    ListenBlocked,
    ReadBlocked,
    SleepNs(u64),
    Yield,
    JoinWorkers,
    Gate(u64),
    /// the broker closes the nth kept channel; the owner waits for that to be processed and drops its handle
    ServerCloseKept { nth: usize, code: u16 },
    /// the broker closes the nth kept channel and, `lead_ns` later, the owner closes it too without waiting for
    /// anything: the two Close frames may cross; the owner then sleeps `settle_ns`
    CrossCloseKept { nth: usize, code: u16, lead_ns: u64, settle_ns: u64 },
    /// the peer stops reading now and resumes after this many nanoseconds (the owner does not wait)
    StallFor(u64),
    /// publish `count` messages of `len` bytes on the nth kept channel
    PublishKept { nth: usize, count: usize, len: usize },
}

#[derive(Clone, Debug, PartialEq)]
pub enum CloseKind {
    Close,
    Drop,
}

#[derive(Clone, Debug, PartialEq)]
pub struct SessionPlan {
    pub opts: ConnOpts,
    pub tuning: Tuning,
    pub threads: Vec<ThreadPlan>,
    pub owner_ops: Vec<OwnerOp>,
    pub close: CloseKind,
    /// false: the owner closes the connection while workers are still running, then joins them
    pub join_before_close: bool,
}

pub struct SessionResult {
    pub hist: History,
    pub run: RunResult,
}

fn stamp() -> u64 {
    simrt::stamp()
}

fn owner_main(plan: SessionPlan, stream: crate::stream::SimStream, hist: Hist) {
    simrt::set_note("owner: opening connection".into());
    let invoke = stamp();
    let tuning = ConnectionTuning::default()
        .mem_channel_bound(plan.tuning.bound)
        .buffered_writes_high_water(plan.tuning.high)
        .buffered_writes_low_water(plan.tuning.low);
    let r = Connection::insecure_open_stream(stream, plan.opts.to_amiquip(), tuning);
    let ret = stamp();
    let mut conn = match r {
        Ok(c) => {
            hist.lock().unwrap().conn.push(ConnRec::Open { invoke, ret, result: Ok(()), server_properties: Some(c.server_properties().clone()) });
            c
        }
        Err(e) => {
            hist.lock().unwrap().conn.push(ConnRec::Open { invoke, ret, result: Err(err_string(&e)), server_properties: None });
            return;
        }
    };
    // open the workers' channels and start the workers
    let mut workers = Vec::new();
    for (ti, tp) in plan.threads.iter().enumerate() {
        let thread_no = ti + 1;
        let mut chans = Vec::new();
        for (slot, id) in tp.chan_ids.iter().enumerate() {
            simrt::set_note(format!("owner: open_channel({:?}) for thread {}", id, thread_no));
            let invoke = stamp();
            let r = conn.open_channel(*id);
            let ret = stamp();
            match r {
                Ok(ch) => {
                    hist.lock().unwrap().conn.push(ConnRec::OpenChannel { requested: *id, invoke, ret, result: Ok(ch.channel_id()), for_thread: thread_no, slot, keep: false });
                    chans.push(ChanCtx::new(ch));
                }
                Err(e) => {
                    hist.lock().unwrap().conn.push(ConnRec::OpenChannel { requested: *id, invoke, ret, result: Err(err_string(&e)), for_thread: thread_no, slot, keep: false });
                    chans.push(ChanCtx { ptr: std::ptr::null_mut(), id: 0, closed: true, returns: None, confirms: None, old_returns: Vec::new(), old_confirms: Vec::new(), kept: Vec::new() });
                }
            }
        }
        let ops = tp.ops.clone();
        let close_channels = tp.close_channels;
        let h = hist.clone();
        let jh = simrt::thread::spawn_client(&format!("client-{}", thread_no), move || {
            let mut w = WorkerCtx { thread: thread_no, chans, consumers: Vec::new(), hist: h };
            w.run_ops(&ops);
            w.finish(close_channels);
        });
        workers.push(jh);
    }
    let mut kept: Vec<Option<amiquip::Channel>> = Vec::new();
    let mut blocked_rx = None;
    let mut joined = false;
    for (i, op) in plan.owner_ops.iter().enumerate() {
        simrt::set_note(format!("owner op#{} {:?}", i, op));
        match op {
            OwnerOp::OpenChannel { id, keep } => {
                let invoke = stamp();
                let r = conn.open_channel(*id);
                let ret = stamp();
                match r {
                    Ok(ch) => {
                        hist.lock().unwrap().conn.push(ConnRec::OpenChannel { requested: *id, invoke, ret, result: Ok(ch.channel_id()), for_thread: 0, slot: kept.len(), keep: *keep });
                        if *keep {
                            kept.push(Some(ch));
                        } else {
                            let _ = ch.close();
                        }
                    }
                    Err(e) => {
                        hist.lock().unwrap().conn.push(ConnRec::OpenChannel { requested: *id, invoke, ret, result: Err(err_string(&e)), for_thread: 0, slot: kept.len(), keep: *keep });
                    }
                }
            }
            OwnerOp::CloseKept { nth } => {
                if let Some(slot) = kept.get_mut(*nth) {
                    if let Some(ch) = slot.take() {
                        let id = ch.channel_id();
                        let invoke = stamp();
                        let r = ch.close();
                        hist.lock().unwrap().conn.push(ConnRec::KeptClosed { id, invoke, result: r.map_err(|e| err_string(&e)) });
                    }
                }
            }
            OwnerOp::ListenBlocked => {
                let invoke = stamp();
                let r = conn.listen_for_connection_blocked();
                let ret = stamp();
                match r {
                    Ok(rx) => {
                        blocked_rx = Some(rx);
                        hist.lock().unwrap().conn.push(ConnRec::ListenBlocked { invoke, ret, result: Ok(()) });
                    }
                    Err(e) => hist.lock().unwrap().conn.push(ConnRec::ListenBlocked { invoke, ret, result: Err(err_string(&e)) }),
                }
            }
            OwnerOp::ReadBlocked => {
                if let Some(rx) = &blocked_rx {
                    let (notes, disconnected) = read_blocked(rx);
                    hist.lock().unwrap().conn.push(ConnRec::ReadBlocked { notes, disconnected });
                }
            }
            OwnerOp::SleepNs(ns) => simrt::sleep_ns(*ns),
            OwnerOp::Yield => simrt::yield_point("owner.yield"),
            OwnerOp::Gate(id) => simrt::gate_wait(*id),
            OwnerOp::ServerCloseKept { nth, code } => {
                if let Some(slot) = kept.get_mut(*nth) {
                    if let Some(ch) = slot.take() {
                        let id = ch.channel_id();
                        let code = *code;
                        crate::world::call_in(0, move |w| w.broker.do_action(crate::broker::Action::CloseChannel { ch: id, code, text: format!("server-close-{}", id) }));
                        simrt::sleep_ns(20_000_000);
                        hist.lock().unwrap().notes.push(format!("server-closed {}", id));
                        drop(ch);
                    }
                }
            }
            OwnerOp::CrossCloseKept { nth, code, lead_ns, settle_ns } => {
                if let Some(slot) = kept.get_mut(*nth) {
                    if let Some(ch) = slot.take() {
                        let id = ch.channel_id();
                        let code = *code;
                        crate::world::call_in(0, move |w| w.broker.do_action(crate::broker::Action::CloseChannel { ch: id, code, text: format!("server-close-{}", id) }));
                        if *lead_ns > 0 {
                            simrt::sleep_ns(*lead_ns);
                        }
                        let invoke = stamp();
                        let r = ch.close();
                        hist.lock().unwrap().conn.push(ConnRec::KeptClosed { id, invoke, result: r.map_err(|e| err_string(&e)) });
                        hist.lock().unwrap().notes.push(format!("cross-closed {}", id));
                        if *settle_ns > 0 {
                            simrt::sleep_ns(*settle_ns);
                        }
                    }
                }
            }
            OwnerOp::StallFor(ns) => {
                let ns = *ns;
                crate::world::call_in(0, |w| w.set_stall(true));
                crate::world::call_in(ns, |w| w.set_stall(false));
                // let the stall take effect before the next operation
                simrt::sleep_ns(2_000);
            }
            OwnerOp::PublishKept { nth, count, len } => {
                if let Some(Some(ch)) = kept.get(*nth) {
                    let id = ch.channel_id();
                    for k in 0..*count {
                        let mark = format!("own{}p{}", id, k);
                        let body = make_body(&mark, *len);
                        let invoke = stamp();
                        let invoke_ns = simrt::now_ns();
                        let r = ch.basic_publish("", amiquip::Publish::new(&body, mark.clone()));
                        let result = match r {
                            Ok(()) => OpResult::Unit,
                            Err(e) => OpResult::Err(err_string(&e)),
                        };
                        hist.lock().unwrap().ops.push(OpRec { thread: 0, slot: *nth, ch_id: id, idx: i * 10_000 + k, op: Op::Publish { exchange: String::new(), rk: mark.clone(), mandatory: false, immediate: false, props: 0, body_len: *len, via_exchange: false }, mark, invoke, ret: stamp(), invoke_ns, ret_ns: simrt::now_ns(), result });
                    }
                }
            }
            OwnerOp::JoinWorkers => {
                if !joined {
                    for w in workers.drain(..) {
                        let _ = w.join();
                    }
                    joined = true;
                }
            }
        }
    }
    if !joined && plan.join_before_close {
        simrt::set_note("owner: joining workers".into());
        for w in workers.drain(..) {
            let _ = w.join();
        }
        joined = true;
    }
    for k in kept.iter_mut() {
        if let Some(ch) = k.take() {
            let id = ch.channel_id();
            let invoke = stamp();
            let r = ch.close();
            hist.lock().unwrap().conn.push(ConnRec::KeptClosed { id, invoke, result: r.map_err(|e| err_string(&e)) });
        }
    }
    simrt::set_note("owner: closing connection".into());
    let invoke = stamp();
    let invoke_ns = simrt::now_ns();
    match plan.close {
        CloseKind::Close => {
            let r = conn.close();
            let ret = stamp();
            hist.lock().unwrap().conn.push(ConnRec::Close { invoke, ret, invoke_ns, ret_ns: simrt::now_ns(), result: r.map_err(|e| err_string(&e)), by_drop: false });
        }
        CloseKind::Drop => {
            drop(conn);
            let ret = stamp();
            hist.lock().unwrap().conn.push(ConnRec::Close { invoke, ret, invoke_ns, ret_ns: simrt::now_ns(), result: Ok(()), by_drop: true });
        }
    }
    if let Some(rx) = &blocked_rx {
        let (notes, disconnected) = read_blocked(rx);
        hist.lock().unwrap().conn.push(ConnRec::ReadBlocked { notes, disconnected });
    }
    if !joined {
        simrt::set_note("owner: joining workers after close".into());
        for w in workers.drain(..) {
            let _ = w.join();
        }
    }
    simrt::set_note("owner: done".into());
}

pub fn run_session(
    plan: &SessionPlan,
    net_cfg: NetCfg,
    broker_cfg: BrokerCfg,
    choices: ChoiceStream,
    sched: SchedCfg,
    hash_seed: u64,
    world_hook: impl FnOnce(&mut World),
) -> (SessionResult, World) {
    let mut world = World::new(net_cfg, broker_cfg);
    let hist: Hist = Arc::new(Mutex::new(History::default()));
    let h2 = hist.clone();
    let plan2 = plan.clone();
    let run = run_sim(choices, sched, hash_seed, &mut world, |w| {
        let stream = w.stream();
        world_hook(w);
        let _ = simrt::thread::spawn_client("client-0", move || owner_main(plan2, stream, h2));
    });
    let hist = std::mem::take(&mut *hist.lock().unwrap());
    (SessionResult { hist, run }, world)
}
