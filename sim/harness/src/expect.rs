//! Hand-written expectation table: for every client operation, the frames the
//! AMQP 0-9-1 specification and amiquip's documentation say it puts on the wire.
//! Written from the spec and the docs, not from amiquip's sources.
use crate::client::*;
use amq_protocol::frame::AMQPFrame;
use amq_protocol::protocol::basic::{self, AMQPMethod as B};
use amq_protocol::protocol::channel::{self, AMQPMethod as Ch};
use amq_protocol::protocol::confirm::{self, AMQPMethod as Cf};
use amq_protocol::protocol::exchange::{self, AMQPMethod as Ex};
use amq_protocol::protocol::queue::{self, AMQPMethod as Q};
use amq_protocol::protocol::AMQPClass;
use amq_protocol::types::FieldTable;

#[derive(Clone, Debug, PartialEq)]
pub enum ExpFrame {
    Method(AMQPClass),
    /// class id, body size, properties
    Header(u16, u64, amiquip::AmqpProperties),
    Body(Vec<u8>),
}

fn q_declare(name: &str, passive: bool, durable: bool, exclusive: bool, auto_delete: bool, nowait: bool, arguments: FieldTable) -> ExpFrame {
    ExpFrame::Method(AMQPClass::Queue(Q::Declare(queue::Declare { ticket: 0, queue: name.to_string(), passive, durable, exclusive, auto_delete, nowait, arguments })))
}

fn x_declare(name: &str, ty: &str, passive: bool, durable: bool, auto_delete: bool, internal: bool, nowait: bool, arguments: FieldTable) -> ExpFrame {
    ExpFrame::Method(AMQPClass::Exchange(Ex::Declare(exchange::Declare {
        ticket: 0,
        exchange: name.to_string(),
        type_: ty.to_string(),
        passive,
        durable,
        auto_delete,
        internal,
        nowait,
        arguments,
    })))
}

/// handle obtained through `queue_declare_nowait(name, default options)`
fn q_handle(name: &str) -> ExpFrame {
    q_declare(name, false, false, false, false, true, FieldTable::new())
}

/// handle obtained through `exchange_declare_nowait(Direct, name, default options)`
fn x_handle(name: &str) -> ExpFrame {
    x_declare(name, "direct", false, false, false, false, true, FieldTable::new())
}

pub fn ack_frame(kind: &AckKind, tag: u64) -> Option<ExpFrame> {
    let m = match kind {
        AckKind::None => return None,
        AckKind::Ack => B::Ack(basic::Ack { delivery_tag: tag, multiple: false }),
        AckKind::AckMultiple => B::Ack(basic::Ack { delivery_tag: tag, multiple: true }),
        AckKind::Nack(r) => B::Nack(basic::Nack { delivery_tag: tag, multiple: false, requeue: *r }),
        AckKind::NackMultiple(r) => B::Nack(basic::Nack { delivery_tag: tag, multiple: true, requeue: *r }),
        AckKind::Reject(r) => B::Reject(basic::Reject { delivery_tag: tag, requeue: *r }),
    };
    Some(ExpFrame::Method(AMQPClass::Basic(m)))
}

pub fn cancel_frame(tag: &str) -> ExpFrame {
    ExpFrame::Method(AMQPClass::Basic(B::Cancel(basic::Cancel { consumer_tag: tag.to_string(), nowait: false })))
}

pub fn channel_open_frame() -> ExpFrame {
    ExpFrame::Method(AMQPClass::Channel(Ch::Open(channel::Open { out_of_band: String::new() })))
}

pub fn channel_close_frame() -> ExpFrame {
    ExpFrame::Method(AMQPClass::Channel(Ch::Close(channel::Close { reply_code: 0, reply_text: String::new(), class_id: 0, method_id: 0 })))
}

/// Frames of a publish: method, header, body pieces of at most frame_max-8 bytes, none if empty.
pub fn publish_frames(exchange: &str, rk: &str, mandatory: bool, immediate: bool, props: amiquip::AmqpProperties, body: &[u8], frame_max: usize) -> Vec<ExpFrame> {
    let mut v = vec![ExpFrame::Method(AMQPClass::Basic(B::Publish(basic::Publish {
        ticket: 0,
        exchange: exchange.to_string(),
        routing_key: rk.to_string(),
        mandatory,
        immediate,
    })))];
    v.push(ExpFrame::Header(60, body.len() as u64, props));
    let piece = frame_max - 8;
    let mut pos = 0;
    while pos < body.len() {
        let n = (body.len() - pos).min(piece);
        v.push(ExpFrame::Body(body[pos..pos + n].to_vec()));
        pos += n;
    }
    v
}

/// Expected frames of one operation, given its recorded result (for the parts
/// that depend on what the server sent: tags, delivery tags, counts).
/// `consumer_tags[slot]` = tag of the consumer in that slot, `cancelled[slot]` = the
/// client already asked to cancel it.
pub fn expect_op(op: &Op, mark: &str, result: &OpResult, frame_max: usize, consumer_tags: &[String], cancelled: &mut Vec<bool>) -> Vec<ExpFrame> {
    let mut v = Vec::new();
    match op {
        Op::QueueDeclare { name, durable, exclusive, auto_delete, args, mode } => match mode {
            Mode::Sync => v.push(q_declare(name, false, *durable, *exclusive, *auto_delete, false, make_table(*args, mark))),
            Mode::Nowait => v.push(q_declare(name, false, *durable, *exclusive, *auto_delete, true, make_table(*args, mark))),
            Mode::Passive => v.push(q_declare(name, true, false, false, false, false, FieldTable::new())),
            Mode::SyncThenUse => {
                v.push(q_declare(name, false, *durable, *exclusive, *auto_delete, false, make_table(*args, mark)));
                // the handle carries the name the server answered with: the requested one, or for an empty
                // request the name the simulated broker derives from the declare's x-mark argument
                if !matches!(result, OpResult::Err(_)) {
                    let used = if name.is_empty() { format!("amq.gen-{}", mark) } else { name.clone() };
                    v.push(ExpFrame::Method(AMQPClass::Queue(Q::Purge(queue::Purge { ticket: 0, queue: used, nowait: true }))));
                }
            }
        },
        Op::QueueBind { queue, exchange, rk, args, nowait, via_queue } => {
            if *via_queue {
                v.push(q_handle(queue));
                v.push(x_handle(exchange));
            }
            v.push(ExpFrame::Method(AMQPClass::Queue(Q::Bind(queue::Bind {
                ticket: 0,
                queue: queue.clone(),
                exchange: exchange.clone(),
                routing_key: rk.clone(),
                nowait: *nowait,
                arguments: make_table(*args, mark),
            }))));
        }
        Op::QueueUnbind { queue, exchange, rk, args, via_queue } => {
            if *via_queue {
                v.push(q_handle(queue));
                v.push(x_handle(exchange));
            }
            v.push(ExpFrame::Method(AMQPClass::Queue(Q::Unbind(queue::Unbind {
                ticket: 0,
                queue: queue.clone(),
                exchange: exchange.clone(),
                routing_key: rk.clone(),
                arguments: make_table(*args, mark),
            }))));
        }
        Op::QueuePurge { queue, nowait, via_queue } => {
            if *via_queue {
                v.push(q_handle(queue));
            }
            v.push(ExpFrame::Method(AMQPClass::Queue(Q::Purge(queue::Purge { ticket: 0, queue: queue.clone(), nowait: *nowait }))));
        }
        Op::QueueDelete { queue, if_unused, if_empty, nowait, via_queue } => {
            if *via_queue {
                v.push(q_handle(queue));
            }
            v.push(ExpFrame::Method(AMQPClass::Queue(Q::Delete(queue::Delete { ticket: 0, queue: queue.clone(), if_unused: *if_unused, if_empty: *if_empty, nowait: *nowait }))));
        }
        Op::ExchangeDeclare { ty, name, durable, auto_delete, internal, args, mode } => match mode {
            Mode::Sync => v.push(x_declare(name, &ty.name(), false, *durable, *auto_delete, *internal, false, make_table(*args, mark))),
            Mode::Nowait => v.push(x_declare(name, &ty.name(), false, *durable, *auto_delete, *internal, true, make_table(*args, mark))),
            // passive: the documentation says every other field is ignored by the server; the
            // type sent is "direct"
            Mode::Passive => v.push(x_declare(name, "direct", true, false, false, false, false, FieldTable::new())),
            Mode::SyncThenUse => v.push(x_declare(name, &ty.name(), false, *durable, *auto_delete, *internal, false, make_table(*args, mark))),
        },
        Op::ExchangeBind { dest, src, rk, args, nowait, via } => {
            if *via != 0 {
                v.push(x_handle(dest));
                v.push(x_handle(src));
            }
            let _ = ("Bind",);
            v.push(ExpFrame::Method(AMQPClass::Exchange(Ex::Bind(exchange::Bind {
                ticket: 0,
                destination: dest.clone(),
                source: src.clone(),
                routing_key: rk.clone(),
                nowait: *nowait,
                arguments: make_table(*args, mark),
            }))));
        }
        Op::ExchangeUnbind { dest, src, rk, args, nowait, via } => {
            if *via != 0 {
                v.push(x_handle(dest));
                v.push(x_handle(src));
            }
            let _ = ("Unbind",);
            v.push(ExpFrame::Method(AMQPClass::Exchange(Ex::Unbind(exchange::Unbind {
                ticket: 0,
                destination: dest.clone(),
                source: src.clone(),
                routing_key: rk.clone(),
                nowait: *nowait,
                arguments: make_table(*args, mark),
            }))));
        }
        Op::ExchangeDelete { name, if_unused, nowait, via_exchange } => {
            if *via_exchange {
                v.push(x_handle(name));
            }
            v.push(ExpFrame::Method(AMQPClass::Exchange(Ex::Delete(exchange::Delete { ticket: 0, exchange: name.clone(), if_unused: *if_unused, nowait: *nowait }))));
        }
        Op::Qos { size, count, global } => {
            v.push(ExpFrame::Method(AMQPClass::Basic(B::Qos(basic::Qos { prefetch_size: *size, prefetch_count: *count, global: *global }))));
        }
        Op::Recover { requeue } => v.push(ExpFrame::Method(AMQPClass::Basic(B::Recover(basic::Recover { requeue: *requeue })))),
        Op::ConfirmSelect { nowait } => v.push(ExpFrame::Method(AMQPClass::Confirm(Cf::Select(confirm::Select { nowait: *nowait })))),
        Op::Publish { exchange, rk, mandatory, immediate, props, body_len, .. } => {
            let body = make_body(mark, *body_len);
            v.extend(publish_frames(exchange, rk, *mandatory, *immediate, make_props(*props, mark), &body, frame_max));
        }
        Op::Get { queue, no_ack, then, via_queue, .. } => {
            if *via_queue {
                v.push(q_handle(queue));
            }
            v.push(ExpFrame::Method(AMQPClass::Basic(B::Get(basic::Get { ticket: 0, queue: queue.clone(), no_ack: *no_ack }))));
            if let OpResult::Got(Some(g)) = result {
                if let Some(f) = ack_frame(then, g.delivery_tag) {
                    v.push(f);
                }
            }
        }
        Op::Consume { queue, no_local, no_ack, exclusive, args, via_queue } => {
            if *via_queue {
                v.push(q_handle(queue));
            }
            v.push(ExpFrame::Method(AMQPClass::Basic(B::Consume(basic::Consume {
                ticket: 0,
                queue: queue.clone(),
                consumer_tag: String::new(),
                no_local: *no_local,
                no_ack: *no_ack,
                exclusive: *exclusive,
                nowait: false,
                arguments: make_table(*args, mark),
            }))));
        }
        Op::Drain { acks, .. } => {
            if let OpResult::Drained { msgs, .. } = result {
                if !acks.is_empty() {
                    for (i, m) in msgs.iter().enumerate() {
                        if let Some(f) = ack_frame(&acks[i % acks.len()], m.delivery_tag) {
                            v.push(f);
                        }
                    }
                }
            }
        }
        Op::Cancel { slot } | Op::DropConsumer { slot, .. } => {
            if *slot < consumer_tags.len() && !cancelled[*slot] && *result != OpResult::Skipped {
                cancelled[*slot] = true;
                v.push(cancel_frame(&consumer_tags[*slot]));
            }
        }
        Op::ForgetConsumer { slot } => {
            if *slot < cancelled.len() {
                // a forgotten consumer never cancels
                cancelled[*slot] = true;
            }
        }
        Op::ListenReturns | Op::ListenConfirms | Op::DropReturns | Op::DropConfirms | Op::ReadReturns | Op::ReadConfirms | Op::ReadOld | Op::Yield | Op::Gate(_) => {}
        Op::AckAll => v.push(ExpFrame::Method(AMQPClass::Basic(B::Ack(basic::Ack { delivery_tag: 0, multiple: true })))),
        Op::NackAll { requeue } => v.push(ExpFrame::Method(AMQPClass::Basic(B::Nack(basic::Nack { delivery_tag: 0, multiple: true, requeue: *requeue })))),
        Op::ForeignAck { .. } | Op::ForeignAckViaConsumer { .. } => {}
        Op::GetKeep { queue } => {
            v.push(ExpFrame::Method(AMQPClass::Basic(B::Get(basic::Get { ticket: 0, queue: queue.clone(), no_ack: false }))));
        }
        Op::CloseChannel => {
            if *result != OpResult::Skipped {
                v.push(channel_close_frame());
            }
        }
    }
    v
}

/// Identity of a frame for ordering / loss / duplication checks (C01): enough
/// to tell any two frames of a run apart, but not a field-by-field comparison.
pub fn identity_of_exp(f: &ExpFrame) -> String {
    match f {
        ExpFrame::Method(c) => method_identity(c),
        ExpFrame::Header(class, size, _) => format!("H:{}:{}", class, size),
        ExpFrame::Body(b) => format!("B:{}:{:x}", b.len(), crate::wire::fnv(b)),
    }
}

pub fn identity_of_frame(f: &AMQPFrame) -> String {
    match f {
        AMQPFrame::Method(_, c) => method_identity(c),
        AMQPFrame::Header(_, class, h) => format!("H:{}:{}", class, h.body_size),
        AMQPFrame::Body(_, b) => format!("B:{}:{:x}", b.len(), crate::wire::fnv(b)),
        AMQPFrame::Heartbeat(_) => "HB".to_string(),
        AMQPFrame::ProtocolHeader => "PH".to_string(),
    }
}

fn method_identity(c: &AMQPClass) -> String {
    // class/method name + the strings and numbers that carry the op's mark
    match c {
        AMQPClass::Queue(Q::Declare(d)) => format!("queue.declare:{}:{}", d.queue, d.nowait),
        AMQPClass::Queue(Q::Bind(d)) => format!("queue.bind:{}:{}:{}", d.queue, d.exchange, d.routing_key),
        AMQPClass::Queue(Q::Unbind(d)) => format!("queue.unbind:{}:{}:{}", d.queue, d.exchange, d.routing_key),
        AMQPClass::Queue(Q::Purge(d)) => format!("queue.purge:{}", d.queue),
        AMQPClass::Queue(Q::Delete(d)) => format!("queue.delete:{}", d.queue),
        AMQPClass::Exchange(Ex::Declare(d)) => format!("exchange.declare:{}:{}", d.exchange, d.nowait),
        AMQPClass::Exchange(Ex::Bind(d)) => format!("exchange.bind:{}:{}:{}", d.destination, d.source, d.routing_key),
        AMQPClass::Exchange(Ex::Unbind(d)) => format!("exchange.unbind:{}:{}:{}", d.destination, d.source, d.routing_key),
        AMQPClass::Exchange(Ex::Delete(d)) => format!("exchange.delete:{}", d.exchange),
        AMQPClass::Basic(B::Publish(p)) => format!("basic.publish:{}:{}", p.exchange, p.routing_key),
        AMQPClass::Basic(B::Get(g)) => format!("basic.get:{}", g.queue),
        AMQPClass::Basic(B::Consume(g)) => format!("basic.consume:{}", g.queue),
        AMQPClass::Basic(B::Cancel(g)) => format!("basic.cancel:{}", g.consumer_tag),
        AMQPClass::Basic(B::Ack(a)) => format!("basic.ack:{}:{}", a.delivery_tag, a.multiple),
        AMQPClass::Basic(B::Nack(a)) => format!("basic.nack:{}:{}", a.delivery_tag, a.multiple),
        AMQPClass::Basic(B::Reject(a)) => format!("basic.reject:{}", a.delivery_tag),
        AMQPClass::Basic(B::Qos(q)) => format!("basic.qos:{}:{}", q.prefetch_size, q.prefetch_count),
        AMQPClass::Basic(B::Recover(_)) => "basic.recover".to_string(),
        AMQPClass::Confirm(Cf::Select(_)) => "confirm.select".to_string(),
        AMQPClass::Channel(Ch::Open(_)) => "channel.open".to_string(),
        AMQPClass::Channel(Ch::Close(_)) => "channel.close".to_string(),
        AMQPClass::Channel(Ch::CloseOk(_)) => "channel.close-ok".to_string(),
        AMQPClass::Basic(B::CancelOk(c)) => format!("basic.cancel-ok:{}", c.consumer_tag),
        other => {
            let s = format!("{:?}", other);
            s.chars().take(60).collect()
        }
    }
}

/// Per-channel expected frame list of a whole session, in issue order, from the
/// history.  Returns None for a channel when some operation on it failed (the
/// expectation is then not defined).
pub struct ChannelExpectation {
    pub ch: u16,
    pub frames: Vec<(ExpFrame, String)>,
    /// invoke stamp of the call each frame comes from (same length as frames)
    pub stamps: Vec<u64>,
    pub defined: bool,
    pub why_undefined: String,
}

pub fn expectations(hist: &History, frame_max: usize) -> Vec<ChannelExpectation> {
    use std::collections::BTreeMap;
    let mut by_ch: BTreeMap<u16, ChannelExpectation> = BTreeMap::new();
    // channels and which thread/slot they belong to
    for c in &hist.conn {
        if let ConnRec::KeptClosed { id, invoke, .. } = c {
            if let Some(e) = by_ch.get_mut(id) {
                e.frames.push((channel_close_frame(), format!("owner closes kept {}", id)));
                e.stamps.push(*invoke);
            }
        }
        if let ConnRec::OpenChannel { result: Ok(id), for_thread, invoke, ret, keep, .. } = c {
            let e = by_ch.entry(*id).or_insert(ChannelExpectation { ch: *id, frames: Vec::new(), stamps: Vec::new(), defined: true, why_undefined: String::new() });
            // an id may be opened several times over a session (owner open/close cycles)
            e.frames.push((channel_open_frame(), format!("open_channel -> {}", id)));
            e.stamps.push(*invoke);
            if *for_thread == 0 && !*keep {
                // a channel the owner opens and closes at once carries nothing but open and close
                e.frames.push((channel_close_frame(), format!("owner closes {}", id)));
                e.stamps.push(*ret);
            }
        }
    }
    // per thread: ops in order
    let mut threads: BTreeMap<usize, Vec<&OpRec>> = BTreeMap::new();
    for o in &hist.ops {
        threads.entry(o.thread).or_default().push(o);
    }
    for (_t, ops) in threads {
        let mut tags: Vec<String> = Vec::new();
        let mut tag_channel: Vec<u16> = Vec::new();
        let mut cancelled: Vec<bool> = Vec::new();
        for o in ops {
            if let Op::Consume { .. } = &o.op {
                if !matches!(o.result, OpResult::Consumer { .. }) {
                    // failed / skipped consume: keep consumer slots aligned with the interpreter
                    tags.push(String::new());
                    tag_channel.push(o.ch_id);
                    cancelled.push(true);
                }
            }
            if o.result == OpResult::Skipped {
                continue;
            }
            if o.idx >= 1_000_000 {
                // final close of a channel: consumers still alive on it were dropped (cancelled) first,
                // in slot order, before any channel was closed -- handled below via marker ops
            }
            let e = match by_ch.get_mut(&o.ch_id) {
                Some(e) => e,
                None => continue,
            };
            if let OpResult::Err(err) = &o.result {
                e.defined = false;
                e.why_undefined = format!("op {:?} failed: {}", o.op, err);
            }
            if let OpResult::Consumer { tag } = &o.result {
                tags.push(tag.clone());
                tag_channel.push(o.ch_id);
                cancelled.push(false);
            }
            if o.idx >= 1_000_000 && o.slot == 0 {
                // before the first final close, finish() dropped every live consumer, in slot order
                for s in 0..tags.len() {
                    if !cancelled[s] {
                        cancelled[s] = true;
                        let chid = tag_channel[s];
                        if let Some(ec) = by_ch.get_mut(&chid) {
                            ec.frames.push((cancel_frame(&tags[s]), format!("final drop of consumer {}", tags[s])));
                            ec.stamps.push(o.invoke);
                        }
                    }
                }
            }
            let e = by_ch.get_mut(&o.ch_id).unwrap();
            // Cancel/Drop refer to consumer slots whose channel may differ from the op's slot
            match &o.op {
                Op::Cancel { slot } | Op::DropConsumer { slot, .. } => {
                    if *slot < tags.len() && !cancelled[*slot] {
                        cancelled[*slot] = true;
                        let chid = tag_channel[*slot];
                        if let Some(ec) = by_ch.get_mut(&chid) {
                            ec.frames.push((cancel_frame(&tags[*slot]), format!("{:?}", o.op)));
                            ec.stamps.push(o.invoke);
                        }
                    }
                }
                Op::Drain { slot, acks, .. } => {
                    if let OpResult::Drained { msgs, .. } = &o.result {
                        if !acks.is_empty() && *slot < tags.len() {
                            let chid = tag_channel[*slot];
                            if let Some(ec) = by_ch.get_mut(&chid) {
                                for (i, m) in msgs.iter().enumerate() {
                                    if let Some(f) = ack_frame(&acks[i % acks.len()], m.delivery_tag) {
                                        ec.frames.push((f, format!("ack in {:?}", o.op)));
                                        ec.stamps.push(o.invoke);
                                    }
                                }
                            }
                        }
                    }
                }
                _ => {
                    // exchange handles on two channels (via 3 / 4): the argument handle's declare went out on the
                    // other channel (the interpreter left a note saying which), everything else on this one
                    let cross = match &o.op {
                        Op::ExchangeBind { dest, src, via, .. } | Op::ExchangeUnbind { dest, src, via, .. } if *via >= 3 => {
                            let key = format!("xvia-other t{} idx{} ch", o.thread, o.idx);
                            hist.notes.iter().find_map(|n| n.strip_prefix(&key).and_then(|x| x.parse::<u16>().ok())).map(|other| (other, if *via == 3 { src.clone() } else { dest.clone() }))
                        }
                        Op::QueueBind { exchange, via_queue: true, .. } | Op::QueueUnbind { exchange, via_queue: true, .. } => {
                            let key = format!("qvia-other t{} idx{} ch", o.thread, o.idx);
                            hist.notes.iter().find_map(|n| n.strip_prefix(&key).and_then(|x| x.parse::<u16>().ok())).map(|other| (other, exchange.clone()))
                        }
                        _ => None,
                    };
                    let mut frames = expect_op(&o.op, &o.mark, &o.result, frame_max, &tags, &mut cancelled);
                    if let Some((other, arg_name)) = &cross {
                        let arg = x_handle(arg_name);
                        let arg_id = identity_of_exp(&arg);
                        if let Some(pos) = frames.iter().position(|f| identity_of_exp(f) == arg_id) {
                            frames.remove(pos);
                        }
                        if let Some(eo) = by_ch.get_mut(other) {
                            eo.frames.push((arg, format!("t{}#{} argument handle of {:?}", o.thread, o.idx, short_op(&o.op))));
                            eo.stamps.push(o.invoke);
                        }
                    }
                    let e = by_ch.get_mut(&o.ch_id).unwrap();
                    for f in frames {
                        e.frames.push((f, format!("t{}#{} {:?}", o.thread, o.idx, short_op(&o.op))));
                        e.stamps.push(o.invoke);
                    }
                }
            }
        }
    }
    // an id can be closed and opened again (by the owner) during a session: order by time
    let mut out: Vec<ChannelExpectation> = by_ch.into_values().collect();
    for e in out.iter_mut() {
        let mut idx: Vec<usize> = (0..e.frames.len()).collect();
        idx.sort_by_key(|i| e.stamps[*i]);
        e.frames = idx.iter().map(|i| e.frames[*i].clone()).collect();
        e.stamps = idx.iter().map(|i| e.stamps[*i]).collect();
    }
    out
}

pub fn short_op(op: &Op) -> String {
    let s = format!("{:?}", op);
    s.chars().take(100).collect()
}
