//! Multi-process driver: workers, watchdog, minimiser, replay files, evidence.
use crate::framework::*;
use serde_json::{json, Value};
use std::collections::{BTreeMap, BTreeSet};
use std::io::{BufRead, BufReader, Write};
use std::process::{Command, Stdio};
use std::sync::mpsc;
use std::time::{Duration, Instant};

/// The verification directory this binary belongs to: <dir>/sim/target/release/simcheck => <dir>
/// (so that a copy or snapshot of /verif reads its own known_findings.json and writes its own
/// evidence and replays); /verif when the layout is not recognised.
pub fn verif_dir() -> String {
    if let Ok(d) = std::env::var("VERIF_DIR") {
        if !d.is_empty() {
            return d;
        }
    }
    if let Ok(exe) = std::env::current_exe() {
        if let Some(d) = exe.ancestors().nth(4) {
            if d.join("known_findings.json").exists() && d.join("sim").is_dir() {
                return d.to_string_lossy().into_owned();
            }
        }
    }
    "/verif".to_string()
}

fn pin_to_cpu(cpu: usize) {
    unsafe {
        let mut set: libc::cpu_set_t = std::mem::zeroed();
        libc::CPU_ZERO(&mut set);
        libc::CPU_SET(cpu, &mut set);
        libc::sched_setaffinity(0, std::mem::size_of::<libc::cpu_set_t>(), &set);
    }
}

pub fn ncpus() -> usize {
    std::thread::available_parallelism().map(|n| n.get()).unwrap_or(1)
}

// ------------------------------------------------------------------ worker

pub fn limit_address_space(bytes: u64) {
    unsafe {
        let lim = libc::rlimit { rlim_cur: bytes, rlim_max: bytes };
        libc::setrlimit(libc::RLIMIT_AS, &lim);
    }
}

pub fn worker_main(scn: &dyn Scenario, thorough: bool, seed: u64, w: usize, n: usize, wall_cap_s: u64) -> i32 {
    pin_to_cpu(w % ncpus());
    if scn.memory_limit() > 0 {
        // allocation failure aborts the process: the driver reports the dead worker with its case
        limit_address_space(scn.memory_limit());
    }
    amiquip_simrt::install_panic_hook(std::env::var("SIM_PANIC_PRINT").is_ok());
    let plan = scn.plan_view(thorough, seed);
    let out = std::io::stdout();
    let t0 = Instant::now();
    let mut evaluations = 0u64;
    let mut distinct: BTreeSet<u64> = BTreeSet::new();
    let mut traces: BTreeSet<u64> = BTreeSet::new();
    let mut batch_sigs: BTreeSet<u64> = BTreeSet::new();
    let mut counters: BTreeMap<String, u64> = BTreeMap::new();
    let mut sim_ns = 0u64;
    let mut steps = 0u64;
    let mut inconclusive = 0u64;
    let mut inconclusive_why: BTreeMap<String, u64> = BTreeMap::new();
    let mut samples: Vec<Value> = Vec::new();
    let mut reported: BTreeSet<String> = BTreeSet::new();
    let mut violations = 0u64;
    let mut skipped = 0u64;
    let mut i = w;
    while i < plan.len() {
        if t0.elapsed().as_secs() > wall_cap_s {
            skipped += 1;
            i += n;
            continue;
        }
        {
            let mut o = out.lock();
            let _ = writeln!(o, "B {}", i);
            let _ = o.flush();
        }
        let spec = plan.get(i).expect("plan index");
        let spec = &spec;
        let rep = scn.run_case(spec, false);
        evaluations += 1;
        sim_ns += rep.sim_ns;
        steps += rep.steps;
        for (k, v) in &rep.counters {
            *counters.entry(k.clone()).or_insert(0) += v;
        }
        traces.insert(rep.trace_hash);
        for s in &rep.batch_sigs {
            if batch_sigs.len() < 100_000 {
                batch_sigs.insert(*s);
            }
        }
        if let Some(why) = &rep.inconclusive {
            inconclusive += 1;
            *inconclusive_why.entry(why.clone()).or_insert(0) += 1;
        }
        if rep.nontrivial {
            distinct.insert(rep.distinct);
        }
        if (samples.len() < 2 && rep.nontrivial) || samples.is_empty() {
            samples.push(rep.sample.clone());
        }
        if !rep.violations.is_empty() {
            violations += 1;
            for v in &rep.violations {
                if reported.len() < 6 && reported.insert(v.key()) {
                    let mut s2 = spec.clone();
                    s2.choices = Some(rep.choices.clone());
                    let line = json!({"index": i, "case": s2.to_json(), "oracle": v.oracle, "sig": v.sig, "detail": v.detail});
                    let mut o = out.lock();
                    let _ = writeln!(o, "V {}", line);
                    let _ = o.flush();
                }
            }
        }
        i += n;
    }
    let summary = json!({
        "worker": w,
        "evaluations": evaluations,
        "distinct": distinct.iter().take(300_000).map(|h| format!("{:x}", h)).collect::<Vec<_>>(),
        "distinct_count": distinct.len(),
        "traces": traces.len(),
        "trace_hashes": traces.iter().take(50_000).map(|h| format!("{:x}", h)).collect::<Vec<_>>(),
        "batch_sigs": batch_sigs.iter().map(|h| format!("{:x}", h)).collect::<Vec<_>>(),
        "counters": counters,
        "sim_ns": sim_ns,
        "steps": steps,
        "inconclusive": inconclusive,
        "inconclusive_why": inconclusive_why,
        "samples": samples,
        "violating_cases": violations,
        "skipped_wall_cap": skipped,
        "wall_s": t0.elapsed().as_secs_f64(),
    });
    let mut o = out.lock();
    let _ = writeln!(o, "S {}", summary);
    let _ = o.flush();
    0
}

// --------------------------------------------------------------- minimiser

fn same_violation(scn: &dyn Scenario, spec: &CaseSpec, key: &str) -> Option<(Vec<u32>, Violation)> {
    let rep = scn.run_case(spec, false);
    for v in rep.violations {
        if v.key() == key {
            return Some((rep.choices, v));
        }
    }
    None
}

/// Shrink the choice vector while the same violation (oracle|sig) recurs.
pub fn minimise(scn: &dyn Scenario, spec: &CaseSpec, key: &str, max_replays: usize, max_secs: u64) -> (CaseSpec, usize) {
    let t0 = Instant::now();
    let mut best = spec.clone();
    let mut replays = 0usize;
    let mut cur: Vec<u32> = match &spec.choices {
        Some(c) => c.clone(),
        None => return (best, 0),
    };
    let budget = |replays: usize| replays < max_replays && t0.elapsed().as_secs() < max_secs;
    // canonicalise
    let mut try_vec = |v: Vec<u32>, replays: &mut usize| -> Option<Vec<u32>> {
        *replays += 1;
        let s = CaseSpec { choices: Some(v), ..spec.clone() };
        same_violation(scn, &s, key).map(|(rec, _)| rec)
    };
    // trailing zeros carry no information
    let trim = |mut v: Vec<u32>| {
        while v.last() == Some(&0) {
            v.pop();
        }
        v
    };
    cur = trim(cur);
    // 1. truncate (binary search on the length kept)
    let mut lo = 0usize;
    let mut hi = cur.len();
    while lo < hi && budget(replays) {
        let mid = (lo + hi) / 2;
        match try_vec(cur[..mid].to_vec(), &mut replays) {
            Some(rec) => {
                cur = trim(rec);
                hi = mid.min(cur.len());
                if lo > hi {
                    lo = hi;
                }
            }
            None => lo = mid + 1,
        }
    }
    // 2. zero blocks, 3. delete blocks
    let mut block = (cur.len() / 2).max(1);
    while block >= 1 && budget(replays) {
        let mut start = 0;
        let mut progress = false;
        while start < cur.len() && budget(replays) {
            let end = (start + block).min(cur.len());
            if cur[start..end].iter().any(|x| *x != 0) {
                let mut v = cur.clone();
                for x in &mut v[start..end] {
                    *x = 0;
                }
                if let Some(rec) = try_vec(v, &mut replays) {
                    cur = trim(rec);
                    progress = true;
                    start = end;
                    continue;
                }
            }
            if budget(replays) && end <= cur.len() {
                let mut v = cur.clone();
                v.drain(start..end.min(v.len()));
                if let Some(rec) = try_vec(v, &mut replays) {
                    if rec.len() < cur.len() || rec.iter().map(|x| *x as u64).sum::<u64>() < cur.iter().map(|x| *x as u64).sum::<u64>() {
                        cur = trim(rec);
                        progress = true;
                        continue;
                    }
                }
            }
            start = end;
        }
        if block == 1 && !progress {
            break;
        }
        if !progress || block > 1 {
            block /= 2;
        }
        if block == 0 {
            break;
        }
    }
    // 4. lower single values
    let mut idx = 0;
    while idx < cur.len() && budget(replays) {
        if cur[idx] > 1 {
            let mut v = cur.clone();
            v[idx] /= 2;
            if let Some(rec) = try_vec(v, &mut replays) {
                cur = trim(rec);
                continue;
            }
        }
        idx += 1;
    }
    best.choices = Some(cur);
    (best, replays)
}

// ------------------------------------------------------------------ replay

pub fn replay_main(scn: &dyn Scenario, path: &str, show: bool) -> i32 {
    let txt = match std::fs::read_to_string(path) {
        Ok(t) => t,
        Err(e) => {
            eprintln!("cannot read {}: {}", path, e);
            return 2;
        }
    };
    let v: Value = match serde_json::from_str(&txt) {
        Ok(v) => v,
        Err(e) => {
            eprintln!("bad replay file: {}", e);
            return 2;
        }
    };
    let spec = CaseSpec::from_json(&v["case"]);
    let want = format!("{}|{}", v["violation"]["oracle"].as_str().unwrap_or(""), v["violation"]["sig"].as_str().unwrap_or(""));
    amiquip_simrt::install_panic_hook(std::env::var("SIM_PANIC_PRINT").is_ok());
    let rep = scn.run_case(&spec, show);
    if show {
        for l in &rep.text {
            println!("{}", l);
        }
        println!("sample: {}", rep.sample);
    }
    let mut hit = false;
    for vio in &rep.violations {
        println!("REPLAY-VIOLATION property={} oracle={} sig={} detail={}", scn.property(), vio.oracle, vio.sig, vio.detail);
        if vio.key() == want {
            hit = true;
        }
    }
    println!("REPLAY-HASH {:x}", rep.trace_hash);
    if hit {
        println!("VIOLATION property={} replay={}", scn.property(), path);
        1
    } else if rep.violations.is_empty() {
        println!("replay: no violation");
        0
    } else {
        println!("replay: different violation than recorded ({})", want);
        3
    }
}

pub fn minimise_main(scn: &dyn Scenario, inp: &str, outp: &str) -> i32 {
    let txt = std::fs::read_to_string(inp).expect("read");
    let v: Value = serde_json::from_str(&txt).expect("json");
    let spec = CaseSpec::from_json(&v["case"]);
    let key = format!("{}|{}", v["violation"]["oracle"].as_str().unwrap_or(""), v["violation"]["sig"].as_str().unwrap_or(""));
    amiquip_simrt::install_panic_hook(std::env::var("SIM_PANIC_PRINT").is_ok());
    let orig_len = spec.choices.as_ref().map(|c| c.len()).unwrap_or(0);
    let (best, replays) = minimise(scn, &spec, &key, 400, 60);
    // final run with text to record the trace
    let rep = scn.run_case(&best, true);
    let vio = rep.violations.iter().find(|x| x.key() == key).cloned();
    match vio {
        Some(vio) => {
            let mut b = best.clone();
            b.choices = Some(rep.choices.clone());
            let mut text = rep.text.clone();
            if text.len() > 4000 {
                let n = text.len();
                text = text[n - 4000..].to_vec();
            }
            let mut j = replay_file_json(scn.property(), &b, &vio, &text, true, orig_len);
            j["minimiser_replays"] = json!(replays);
            j["sample"] = rep.sample.clone();
            std::fs::write(outp, serde_json::to_string_pretty(&j).unwrap()).expect("write");
            0
        }
        None => 4,
    }
}

// ---------------------------------------------------------- known findings

#[derive(Clone, Debug)]
pub struct Known {
    pub property: String,
    pub status: String,
    pub oracle: String,
    pub sig_contains: String,
    pub what: String,
}

pub fn load_known() -> Vec<Known> {
    let p = format!("{}/known_findings.json", verif_dir());
    let txt = match std::fs::read_to_string(&p) {
        Ok(t) => t,
        Err(_) => return Vec::new(),
    };
    let v: Value = match serde_json::from_str(&txt) {
        Ok(v) => v,
        Err(_) => return Vec::new(),
    };
    let mut out = Vec::new();
    if let Some(a) = v["findings"].as_array() {
        for f in a {
            out.push(Known {
                property: f["property"].as_str().unwrap_or("").to_string(),
                status: f["status"].as_str().unwrap_or("").to_string(),
                oracle: f["oracle"].as_str().unwrap_or("").to_string(),
                sig_contains: f["sig_contains"].as_str().unwrap_or("").to_string(),
                what: f["what"].as_str().unwrap_or("").to_string(),
            });
        }
    }
    out
}

fn match_known<'a>(known: &'a [Known], prop: &str, oracle: &str, sig: &str) -> Option<&'a Known> {
    known.iter().find(|k| k.status == "known" && k.property == prop && k.oracle == oracle && !k.sig_contains.is_empty() && sig.contains(&k.sig_contains))
}

// ------------------------------------------------------------------ driver

enum Msg {
    Line(usize, String),
    Exit(usize, Option<i32>, Option<i32>),
}

pub fn run_main(scn: &dyn Scenario, thorough: bool, seed: u64, workers: usize) -> i32 {
    let t0 = Instant::now();
    let prop = scn.property();
    let exe = std::env::current_exe().expect("exe");
    let tier = if thorough { "thorough" } else { "quick" };
    let plan_len = scn.plan_view(thorough, seed).len();
    let workers = workers.min(plan_len.max(1));
    println!("[{}] {} tier: {} cases, {} workers, VERIF_SEED={}", prop, tier, plan_len, workers, seed);
    let wall_cap: u64 = if thorough { 1500 } else { 150 };
    let (tx, rx) = mpsc::channel::<Msg>();
    let mut children = Vec::new();
    for w in 0..workers {
        let mut child = Command::new(&exe)
            .args(["worker", prop, tier, &seed.to_string(), &w.to_string(), &workers.to_string(), &wall_cap.to_string()])
            .stdout(Stdio::piped())
            .stderr(Stdio::null())
            .spawn()
            .expect("spawn worker");
        let stdout = child.stdout.take().unwrap();
        let txc = tx.clone();
        std::thread::spawn(move || {
            let r = BufReader::new(stdout);
            for line in r.lines().map_while(Result::ok) {
                let _ = txc.send(Msg::Line(w, line));
            }
            let _ = txc.send(Msg::Exit(w, None, None));
        });
        children.push(Some(child));
    }
    let mut eof: Vec<bool> = vec![false; workers];
    let mut last_begin: Vec<Option<usize>> = vec![None; workers];
    let mut last_activity: Vec<Instant> = vec![Instant::now(); workers];
    let mut summaries: Vec<Option<Value>> = vec![None; workers];
    let mut vlines: Vec<Value> = Vec::new();
    let mut alive = workers;
    let mut harness_errors: Vec<String> = Vec::new();
    let mut died: Vec<(usize, String)> = Vec::new();
    let stuck_after = Duration::from_secs(if thorough { 900 } else { 300 });
    while alive > 0 {
        match rx.recv_timeout(Duration::from_millis(500)) {
            Ok(Msg::Line(w, line)) => {
                last_activity[w] = Instant::now();
                if let Some(rest) = line.strip_prefix("B ") {
                    last_begin[w] = rest.trim().parse().ok();
                } else if let Some(rest) = line.strip_prefix("V ") {
                    if let Ok(v) = serde_json::from_str::<Value>(rest) {
                        vlines.push(v);
                    }
                } else if let Some(rest) = line.strip_prefix("S ") {
                    if let Ok(v) = serde_json::from_str::<Value>(rest) {
                        summaries[w] = Some(v);
                    }
                }
            }
            Ok(Msg::Exit(w, _, _)) => eof[w] = true,
            Err(mpsc::RecvTimeoutError::Timeout) => {}
            Err(mpsc::RecvTimeoutError::Disconnected) => break,
        }
        for w in 0..workers {
            if let Some(ch) = children[w].as_mut() {
                match ch.try_wait() {
                    Ok(Some(st)) => {
                        // the worker is gone: read what it wrote until its stdout reports end of file
                        // (a summary line can be tens of megabytes)
                        let deadline = Instant::now() + Duration::from_secs(60);
                        while !eof[w] && Instant::now() < deadline {
                            let m = rx.recv_timeout(Duration::from_millis(50));
                            if let Ok(Msg::Exit(ww, _, _)) = m {
                                eof[ww] = true;
                                continue;
                            }
                            if let Ok(Msg::Line(ww, line)) = m {
                                if let Some(rest) = line.strip_prefix("S ") {
                                    if let Ok(v) = serde_json::from_str::<Value>(rest) {
                                        summaries[ww] = Some(v);
                                    }
                                } else if let Some(rest) = line.strip_prefix("V ") {
                                    if let Ok(v) = serde_json::from_str::<Value>(rest) {
                                        vlines.push(v);
                                    }
                                } else if let Some(rest) = line.strip_prefix("B ") {
                                    last_begin[ww] = rest.trim().parse().ok();
                                }
                            }
                        }
                        if !st.success() || summaries[w].is_none() {
                            use std::os::unix::process::ExitStatusExt;
                            died.push((w, format!("exit={:?} signal={:?} at plan index {:?}", st.code(), st.signal(), last_begin[w])));
                        }
                        children[w] = None;
                        alive -= 1;
                    }
                    Ok(None) => {
                        if last_activity[w].elapsed() > stuck_after {
                            let _ = ch.kill();
                            let _ = ch.wait();
                            died.push((w, format!("no progress for {:?} (real time) at plan index {:?}: killed", stuck_after, last_begin[w])));
                            children[w] = None;
                            alive -= 1;
                        }
                    }
                    Err(e) => {
                        harness_errors.push(format!("wait failed: {}", e));
                        children[w] = None;
                        alive -= 1;
                    }
                }
            }
        }
    }
    // late lines
    while let Ok(m) = rx.try_recv() {
        if let Msg::Line(w, line) = m {
            if let Some(rest) = line.strip_prefix("V ") {
                if let Ok(v) = serde_json::from_str::<Value>(rest) {
                    vlines.push(v);
                }
            } else if let Some(rest) = line.strip_prefix("S ") {
                if let Ok(v) = serde_json::from_str::<Value>(rest) {
                    summaries[w] = Some(v);
                }
            }
        }
    }

    // ---- aggregate
    let mut evaluations = 0u64;
    let mut distinct_truncated = false;
    let mut distinct: BTreeSet<String> = BTreeSet::new();
    let mut traces: BTreeSet<String> = BTreeSet::new();
    let mut batch_sigs: BTreeSet<String> = BTreeSet::new();
    let mut counters: BTreeMap<String, u64> = BTreeMap::new();
    let mut sim_ns = 0u64;
    let mut steps = 0u64;
    let mut inconclusive = 0u64;
    let mut inconclusive_why: BTreeMap<String, u64> = BTreeMap::new();
    let mut samples: Vec<Value> = Vec::new();
    let mut violating_cases = 0u64;
    let mut skipped = 0u64;
    for s in summaries.iter().flatten() {
        evaluations += s["evaluations"].as_u64().unwrap_or(0);
        for h in s["distinct"].as_array().into_iter().flatten() {
            distinct.insert(h.as_str().unwrap_or("").to_string());
        }
        if s["distinct_count"].as_u64().unwrap_or(0) > 300_000 {
            distinct_truncated = true;
        }
        for h in s["trace_hashes"].as_array().into_iter().flatten() {
            traces.insert(h.as_str().unwrap_or("").to_string());
        }
        for h in s["batch_sigs"].as_array().into_iter().flatten() {
            batch_sigs.insert(h.as_str().unwrap_or("").to_string());
        }
        if let Some(m) = s["counters"].as_object() {
            for (k, v) in m {
                *counters.entry(k.clone()).or_insert(0) += v.as_u64().unwrap_or(0);
            }
        }
        if let Some(m) = s["inconclusive_why"].as_object() {
            for (k, v) in m {
                *inconclusive_why.entry(k.clone()).or_insert(0) += v.as_u64().unwrap_or(0);
            }
        }
        sim_ns += s["sim_ns"].as_u64().unwrap_or(0);
        steps += s["steps"].as_u64().unwrap_or(0);
        inconclusive += s["inconclusive"].as_u64().unwrap_or(0);
        violating_cases += s["violating_cases"].as_u64().unwrap_or(0);
        skipped += s["skipped_wall_cap"].as_u64().unwrap_or(0);
        for x in s["samples"].as_array().into_iter().flatten() {
            if samples.len() < 3 {
                samples.push(x.clone());
            }
        }
    }

    // ---- violations: known findings, minimise, confirm
    let known = load_known();
    let mut exit_code = 0;
    let mut printed_known: BTreeSet<String> = BTreeSet::new();
    let mut new_keys: BTreeMap<String, Value> = BTreeMap::new();
    for v in &vlines {
        let oracle = v["oracle"].as_str().unwrap_or("");
        let sig = v["sig"].as_str().unwrap_or("");
        if let Some(k) = match_known(&known, prop, oracle, sig) {
            if printed_known.insert(format!("{}|{}", k.oracle, k.sig_contains)) {
                println!("KNOWN-FINDING: property={} {} [{}|{}]", prop, k.what, k.oracle, k.sig_contains);
            }
            continue;
        }
        let key = format!("{}|{}", oracle, sig);
        let better = match new_keys.get(&key) {
            None => true,
            Some(old) => {
                v["case"]["choices"].as_array().map(|a| a.len()).unwrap_or(usize::MAX) < old["case"]["choices"].as_array().map(|a| a.len()).unwrap_or(usize::MAX)
            }
        };
        if better {
            new_keys.insert(key, v.clone());
        }
    }
    let replay_dir = format!("{}/replays", verif_dir());
    let _ = std::fs::create_dir_all(&replay_dir);
    let mut reported_violations = 0;
    for (n, (key, v)) in new_keys.iter().enumerate() {
        if n >= 4 {
            println!("[{}] further violation (not minimised): {}", prop, key);
            continue;
        }
        let spec = CaseSpec::from_json(&v["case"]);
        let vio = Violation { oracle: v["oracle"].as_str().unwrap_or("").into(), sig: v["sig"].as_str().unwrap_or("").into(), detail: v["detail"].as_str().unwrap_or("").into() };
        let base = format!("{}/{}-{}-{:x}", replay_dir, prop, vio.oracle.replace(|c: char| !c.is_alphanumeric(), "_"), spec.seed);
        let raw_path = format!("{}.raw.json", base);
        let min_path = format!("{}.json", base);
        let raw = replay_file_json(prop, &spec, &vio, &[], false, spec.choices.as_ref().map(|c| c.len()).unwrap_or(0));
        std::fs::write(&raw_path, serde_json::to_string(&raw).unwrap()).expect("write replay");
        // minimise in a subprocess (it may die)
        let st = Command::new(&exe).args(["minimise", prop, &raw_path, &min_path]).stdout(Stdio::null()).stderr(Stdio::null()).spawn().and_then(|mut c| {
            let t = Instant::now();
            loop {
                if let Some(s) = c.try_wait()? {
                    return Ok(Some(s));
                }
                if t.elapsed() > Duration::from_secs(120) {
                    let _ = c.kill();
                    let _ = c.wait();
                    return Ok(None);
                }
                std::thread::sleep(Duration::from_millis(50));
            }
        });
        let use_path = match st {
            Ok(Some(s)) if s.success() && std::path::Path::new(&min_path).exists() => {
                let _ = std::fs::remove_file(&raw_path);
                min_path.clone()
            }
            _ => raw_path.clone(),
        };
        // confirm in a fresh process
        let out = Command::new(&exe).args(["replay", prop, &use_path]).output();
        let confirmed = match &out {
            Ok(o) => o.status.code() == Some(1),
            Err(_) => false,
        };
        if confirmed {
            println!("[{}] violated: oracle={} sig={}\n    {}", prop, vio.oracle, vio.sig, vio.detail.chars().take(600).collect::<String>());
            println!("VIOLATION property={} replay={}", prop, use_path);
            reported_violations += 1;
            exit_code = 1;
        } else {
            let code = out.as_ref().ok().and_then(|o| o.status.code());
            let sig = out.as_ref().ok().map(|o| {
                use std::os::unix::process::ExitStatusExt;
                o.status.signal()
            });
            if code.is_none() && sig.flatten().is_some() {
                // the replay kills the process: that is the violation reproducing
                println!("[{}] violated (replay dies with signal {:?}): oracle={} sig={}", prop, sig, vio.oracle, vio.sig);
                println!("VIOLATION property={} replay={}", prop, use_path);
                reported_violations += 1;
                exit_code = 1;
            } else {
                harness_errors.push(format!("violation {} did not reproduce in a fresh process (exit {:?}); replay file {}", key, code, use_path));
            }
        }
    }
    // dead / stuck workers
    for (w, why) in &died {
        let idx = last_begin[*w];
        let plan = scn.plan_view(thorough, seed);
        let spec = idx.and_then(|i| plan.get(i));
        let oracle = "process";
        let sig = if why.contains("no progress") { "stuck-in-real-time" } else { "worker-died" };
        if let Some(k) = match_known(&known, prop, oracle, sig) {
            println!("KNOWN-FINDING: property={} {}", prop, k.what);
            continue;
        }
        match spec {
            Some(spec) => {
                let path = format!("{}/{}-process-{:x}.json", replay_dir, prop, spec.seed);
                let vio = Violation::new(oracle, sig, why.clone());
                let j = replay_file_json(prop, &spec, &vio, &[], false, 0);
                std::fs::write(&path, serde_json::to_string_pretty(&j).unwrap()).expect("write");
                println!("[{}] worker {} {}", prop, w, why);
                println!("VIOLATION property={} replay={}", prop, path);
                reported_violations += 1;
                exit_code = 1;
            }
            None => harness_errors.push(format!("worker {} died before its first case: {}", w, why)),
        }
    }

    // ---- evidence
    let wall = t0.elapsed().as_secs_f64();
    let nontrivial = distinct.len() as u64;
    let ev = json!({
        "property_id": prop,
        "tier": tier,
        "seed": seed,
        "level": scn.level(),
        "coverage": {
            "evaluations": evaluations,
            "distinct_nontrivial": nontrivial,
            "rule": scn.rule(),
            "distinct_nontrivial_is_lower_bound": distinct_truncated,
            "samples": samples,
            "exhaustive": scn.exhaustive(thorough),
            "planned_cases": plan_len,
            "skipped_by_wall_cap": skipped,
            "inconclusive_runs": inconclusive,
            "inconclusive_reasons": inconclusive_why,
            "violating_cases": violating_cases,
            "runs_per_hour": if wall > 0.0 { (evaluations as f64 / wall * 3600.0) as u64 } else { 0 },
            "simulated_seconds_covered": sim_ns as f64 / 1e9,
            "scheduler_steps": steps,
            "distinct_schedule_traces": traces.len(),
            "distinct_poll_batch_signatures": batch_sigs.len(),
            "fault_and_probe_counters": counters,
            "workers": workers,
            "real_vs_stub": scn.real_vs_stub(),
        },
        "assumptions": scn.assumptions(),
        "wall_s": wall,
        "violations": reported_violations,
    });
    let evdir = format!("{}/evidence", verif_dir());
    let _ = std::fs::create_dir_all(&evdir);
    if evaluations > 0 {
        std::fs::write(format!("{}/{}.json", evdir, prop), serde_json::to_string_pretty(&ev).unwrap()).expect("write evidence");
    }
    println!(
        "[{}] {} evaluations, {} distinct non-trivial, {} inconclusive, {} schedule traces, {:.1} sim-s, {:.1}s wall",
        prop,
        evaluations,
        nontrivial,
        inconclusive,
        traces.len(),
        sim_ns as f64 / 1e9,
        wall
    );
    if !harness_errors.is_empty() {
        for e in &harness_errors {
            println!("HARNESS-ERROR: {}", e);
        }
        if exit_code == 0 {
            return 2;
        }
    }
    if exit_code == 0 && evaluations == 0 {
        println!("HARNESS-ERROR: nothing was evaluated");
        return 2;
    }
    // a check that stopped deciding must not look like a pass: on the unchanged tree at most 1-2 % of the
    // runs of any property are inconclusive (step cap, inapplicable case)
    if exit_code == 0 && inconclusive * 10 > evaluations {
        println!("HARNESS-ERROR: {} of {} runs were inconclusive (> 10 %): the check does not decide enough to claim the property held; reasons: {:?}", inconclusive, evaluations, inconclusive_why.iter().take(4).collect::<Vec<_>>());
        return 2;
    }
    exit_code
}

/// Determinism self-test: every case of the (quick) plan prefix twice, in two different processes.
pub fn determinism_main(scn: &dyn Scenario, seed: u64, count: usize) -> i32 {
    let exe = std::env::current_exe().expect("exe");
    let prop = scn.property();
    let mut outs = Vec::new();
    for (round, workers) in [(0, 4usize), (1, 16usize)] {
        let mut hashes: BTreeMap<usize, String> = BTreeMap::new();
        let mut kids = Vec::new();
        for w in 0..workers {
            let child = Command::new(&exe)
                .args(["hashes", prop, &seed.to_string(), &w.to_string(), &workers.to_string(), &count.to_string()])
                .stdout(Stdio::piped())
                .stderr(Stdio::null())
                .spawn()
                .expect("spawn");
            kids.push(child);
        }
        for k in kids {
            let o = k.wait_with_output().expect("wait");
            for line in String::from_utf8_lossy(&o.stdout).lines() {
                if let Some(rest) = line.strip_prefix("H ") {
                    let mut it = rest.split_whitespace();
                    let i: usize = it.next().unwrap().parse().unwrap();
                    hashes.insert(i, it.next().unwrap().to_string());
                }
            }
        }
        let _ = round;
        outs.push(hashes);
    }
    let mut bad = 0;
    for (i, h) in &outs[0] {
        match outs[1].get(i) {
            Some(h2) if h2 == h => {}
            other => {
                bad += 1;
                if bad < 10 {
                    println!("DIVERGENCE property={} case {}: {} vs {:?}", prop, i, h, other);
                }
            }
        }
    }
    println!("[{}] determinism: {} cases run twice (4 and 16 workers), {} divergences", prop, outs[0].len(), bad);
    if bad > 0 || outs[0].len() != outs[1].len() || outs[0].is_empty() {
        2
    } else {
        0
    }
}

pub fn hashes_main(scn: &dyn Scenario, seed: u64, w: usize, n: usize, count: usize) -> i32 {
    pin_to_cpu(w % ncpus());
    amiquip_simrt::install_panic_hook(std::env::var("SIM_PANIC_PRINT").is_ok());
    let plan = scn.plan(false, seed);
    let mut i = w;
    while i < plan.len().min(count) {
        let rep = scn.run_case(&plan[i], false);
        let mut h = rep.trace_hash;
        for c in &rep.choices {
            h = (h ^ *c as u64).wrapping_mul(0x100000001b3);
        }
        for v in &rep.violations {
            for b in v.key().bytes() {
                h = (h ^ b as u64).wrapping_mul(0x100000001b3);
            }
        }
        println!("H {} {:x}", i, h);
        i += n;
    }
    0
}
