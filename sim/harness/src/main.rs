mod broker;
mod client;
mod session;
mod stream;
mod wire;
mod world;

use amiquip_simrt as simrt;
use client::*;
use session::*;

fn main() {
    simrt::install_panic_hook(true);
    let args: Vec<String> = std::env::args().collect();
    let seed: u64 = args.get(1).and_then(|s| s.parse().ok()).unwrap_or(1);
    let plan = SessionPlan {
        opts: ConnOpts::default(),
        tuning: Tuning::default(),
        threads: vec![ThreadPlan {
            chan_ids: vec![None, Some(7)],
            ops: vec![
                (0, Op::QueueDeclare { name: "q1".into(), durable: true, exclusive: false, auto_delete: false, args: 1, mode: Mode::Sync }),
                (1, Op::Publish { exchange: "".into(), rk: "q1".into(), mandatory: false, immediate: false, props: 3, body_len: 9000, via_exchange: false }),
                (0, Op::Consume { queue: "q1".into(), no_local: false, no_ack: false, exclusive: false, args: 0, via_queue: false }),
                (0, Op::Cancel { slot: 0 }),
                (0, Op::Drain { slot: 0, max: None, acks: vec![AckKind::Ack], via_consumer: true }),
            ],
            close_channels: true,
        }],
        owner_ops: vec![],
        close: CloseKind::Close,
    };
    let mut bcfg = broker::BrokerCfg::default();
    bcfg.tune = (2047, 4096, 0);
    bcfg.deliveries_min = 2;
    bcfg.deliveries_max = 4;
    bcfg.body_max = 10000;
    bcfg.think_max_ns = 50_000;
    bcfg.seg_mode = broker::SegMode::Random;
    let mut ncfg = stream::NetCfg::default();
    ncfg.wr_short_permille = 300;
    ncfg.wr_block_permille = 200;
    ncfg.wr_block_max_ns = 100_000;
    let mut sched = simrt::SchedCfg::default();
    sched.record_text = std::env::var("TRACE").is_ok();
    let t0 = std::time::Instant::now();
    let (res, world) = run_session(&plan, ncfg, bcfg, simrt::ChoiceStream::generate(seed), sched, seed, |_| {});
    println!("outcome {:?} drained {} steps {} switches {} sim {}us wall {:?} hash {:x}", res.run.outcome, res.run.drained, res.run.fin.stats.steps, res.run.fin.stats.switches, res.run.fin.sim_ns / 1000, t0.elapsed(), res.run.fin.trace_hash);
    for l in &res.run.fin.text {
        println!("{}", l);
    }
    for c in &res.hist.conn {
        println!("{:?}", c);
    }
    for o in &res.hist.ops {
        let s = format!("{:?}", o.result);
        println!("t{} #{} ch{} {:?} -> {}", o.thread, o.idx, o.ch_id, o.op, &s[..s.len().min(200)]);
    }
    let n = world.net.lock().unwrap();
    let (hdr, frames, used) = wire::split_stream(&n.c2s, true).unwrap();
    println!("c2s {} bytes hdr {} frames {} used {} stats {:?}", n.c2s.len(), hdr, frames.len(), used, n.stats);
    println!("panics {:?}", res.run.panics);
    println!("broker stats {:?} err {:?}", world.broker.stats, world.broker.envelope_error);
}
