mod broker;
mod client;
mod driver;
mod expect;
mod framework;
mod gen;
mod lifecycle;
mod oracles;
mod scen;
mod session;
mod stream;
mod wire;
mod world;

fn usage() -> ! {
    eprintln!("usage: simcheck run <PROP> <quick|thorough> [seed] [workers]\n       simcheck replay <PROP> <file> [--show]\n       simcheck determinism <PROP> [seed] [count]\n       simcheck one <PROP> <seed> [--show]   (single generated case)");
    std::process::exit(2)
}

fn main() {
    // before any simulation runs (plans may run baseline sessions): panics are captured, deliberate ones ignored
    amiquip_simrt::install_panic_hook(std::env::var("SIM_PANIC_PRINT").is_ok());
    let args: Vec<String> = std::env::args().collect();
    if args.len() < 3 {
        usage();
    }
    let cmd = args[1].as_str();
    let scn = match scen::by_id(&args[2]) {
        Some(s) => s,
        None => {
            eprintln!("unknown property {}", args[2]);
            std::process::exit(2);
        }
    };
    let env_seed = std::env::var("VERIF_SEED").ok().and_then(|s| s.parse::<u64>().ok());
    let code = match cmd {
        "run" => {
            let thorough = args.get(3).map(|s| s == "thorough").unwrap_or(false);
            let seed = args.get(4).and_then(|s| s.parse().ok()).or(env_seed).unwrap_or(1);
            let workers = args.get(5).and_then(|s| s.parse().ok()).unwrap_or_else(driver::ncpus);
            driver::run_main(scn.as_ref(), thorough, seed, workers)
        }
        "worker" => {
            let thorough = args[3] == "thorough";
            let seed: u64 = args[4].parse().unwrap();
            let w: usize = args[5].parse().unwrap();
            let n: usize = args[6].parse().unwrap();
            let cap: u64 = args[7].parse().unwrap();
            driver::worker_main(scn.as_ref(), thorough, seed, w, n, cap)
        }
        "replay" => driver::replay_main(scn.as_ref(), &args[3], args.iter().any(|a| a == "--show")),
        "minimise" => driver::minimise_main(scn.as_ref(), &args[3], &args[4]),
        "determinism" => {
            let seed = args.get(3).and_then(|s| s.parse().ok()).or(env_seed).unwrap_or(1);
            let count = args.get(4).and_then(|s| s.parse().ok()).unwrap_or(2000);
            driver::determinism_main(scn.as_ref(), seed, count)
        }
        "hashes" => {
            let seed: u64 = args[3].parse().unwrap();
            let w: usize = args[4].parse().unwrap();
            let n: usize = args[5].parse().unwrap();
            let count: usize = args[6].parse().unwrap();
            driver::hashes_main(scn.as_ref(), seed, w, n, count)
        }
        "one" => {
            let seed: u64 = args[3].parse().unwrap();
            let show = args.iter().any(|a| a == "--show");
            amiquip_simrt::install_panic_hook(show);
            let plan = scn.plan(false, seed);
            let idx: usize = args.get(4).and_then(|s| s.parse().ok()).unwrap_or(0);
            let spec = plan[idx.min(plan.len() - 1)].clone();
            let t0 = std::time::Instant::now();
            let rep = scn.run_case(&spec, show);
            if show {
                for l in &rep.text {
                    println!("{}", l);
                }
            }
            println!("sample: {}", rep.sample);
            println!("counters: {:?}", rep.counters);
            println!("violations: {:#?}", rep.violations);
            println!("nontrivial {} inconclusive {:?} steps {} sim {}us wall {:?}", rep.nontrivial, rep.inconclusive, rep.steps, rep.sim_ns / 1000, t0.elapsed());
            if rep.violations.is_empty() { 0 } else { 1 }
        }
        _ => usage(),
    };
    std::process::exit(code);
}
