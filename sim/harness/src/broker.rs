//! Generative reference broker.  Not a thread: an actor run from simulator
//! events on the controller.  Every value it hands out is unique, so anything
//! a client call returns is attributable to exactly one reply.
use crate::stream::{Net, NetEv};
use crate::wire::{self, RawFrame};
use amiquip_simrt as simrt;
use amq_protocol::frame::AMQPFrame;
use amq_protocol::protocol::basic::{self, AMQPMethod as B, AMQPProperties};
use amq_protocol::protocol::channel::{self, AMQPMethod as Ch};
use amq_protocol::protocol::confirm::{self, AMQPMethod as Cf};
use amq_protocol::protocol::connection::{self, AMQPMethod as Cn};
use amq_protocol::protocol::exchange::{self, AMQPMethod as Ex};
use amq_protocol::protocol::queue::{self, AMQPMethod as Q};
use amq_protocol::protocol::AMQPClass;
use amq_protocol::types::{AMQPValue, FieldTable};
use std::collections::{BTreeMap, VecDeque};

#[derive(Clone, Debug, PartialEq)]
pub enum SegMode {
    Whole,
    Mtu,
    Small,
    Byte,
    Random,
}

#[derive(Clone, Debug, PartialEq)]
pub enum CutKind {
    Eof,
    Reset,
}

#[derive(Clone, Debug, PartialEq)]
pub enum CloseOkMode {
    /// CloseOk, then EOF in the same segment
    SameSegment,
    /// CloseOk, EOF a little later
    Later,
    /// CloseOk and the socket stays open
    Never,
}

#[derive(Clone, Debug, PartialEq)]
pub enum Trigger {
    AtTime(u64),
    /// when the nth (0-based) synchronous request on channel ch arrives; if
    /// `instead` the request is not answered
    OnRequest { ch: u16, nth: u32, instead: bool },
    /// when the nth publish (complete content) on channel ch has arrived
    OnPublish { ch: u16, nth: u32 },
    /// when the Basic.Publish *method frame* of the nth publish on the channel arrives (its content may
    /// still be on its way)
    OnPublishMethod { ch: u16, nth: u32 },
    /// right after the connection is open
    OnOpen,
}

#[derive(Clone, Debug, PartialEq)]
pub enum Action {
    CloseChannel { ch: u16, code: u16, text: String },
    CloseConnection { code: u16, text: String },
    CancelConsumer { ch: u16, nth_consumer: u32, nowait: bool },
    /// the cancel goes on the wire, the close follows it at once
    CancelThenCloseChannel { ch: u16, nth_consumer: u32, nowait: bool, code: u16, text: String },
    /// the cancel goes on the wire, the connection close follows it at once
    CancelThenCloseConnection { ch: u16, nth_consumer: u32, nowait: bool, code: u16, text: String },
    Blocked(String),
    Unblocked,
    /// `count` more deliveries for the nth consumer of the channel (if it is still consuming)
    DeliverMore { ch: u16, nth_consumer: u32, count: u32 },
    /// pre-encoded frames pushed verbatim on the mux queue of channel `ch`
    Raw { ch: u16, frames: Vec<Vec<u8>> },
    /// a byte stream delivered in segments cut at the given offsets (relative to its start),
    /// one segment every `gap_ns`; bypasses the mux
    RawStream { bytes: Vec<u8>, cuts: Vec<usize>, gap_ns: u64, then_eof: bool },
    Eof,
    Reset,
    /// stop sending anything (incl. heartbeats) from now on
    Silence,
    /// confirm: ack/nack on channel
    Confirm { ch: u16, ack: bool, tag: u64, multiple: bool },
}

#[derive(Clone, Debug)]
pub struct BrokerCfg {
    pub mechanisms: String,
    pub locales: String,
    pub server_properties: FieldTable,
    pub tune: (u16, u32, u16),
    pub think_min_ns: u64,
    pub think_max_ns: u64,
    /// server->client latency
    pub s2c_lat_min_ns: u64,
    pub s2c_lat_max_ns: u64,
    pub seg_mode: SegMode,
    pub seg_gap_max_ns: u64,
    /// deliveries generated per consumer
    /// number of deliveries for consumers of particular queues (overrides deliveries_min/max)
    pub deliveries_for_queue: Vec<(String, u32)>,
    pub deliveries_min: u32,
    pub deliveries_max: u32,
    pub body_max: usize,
    /// per-mille of gets answered GetEmpty
    pub get_empty_permille: u32,
    /// per-mille of mandatory publishes that are returned
    pub return_permille: u32,
    /// confirm behaviour: 0 = ack each singly in order; 1 = random batches / reorder / nack
    pub confirm_style: u32,
    /// server heartbeat period (None = never sends heartbeats)
    pub heartbeat_every_ns: Option<u64>,
    pub closeok_mode: CloseOkMode,
    /// after a server-initiated connection close: EOF once CloseOk has arrived
    pub eof_after_server_close: bool,
    /// bytes (whole frames) the server sends right behind OpenOk: the first `.1` of them in the very same
    /// write as OpenOk, the rest `.2` ns later
    pub glue_after_open_ok: Option<(Vec<u8>, usize, u64)>,
    /// RawStream with then_eof: the end of stream arrives together with the last segment (same instant)
    /// instead of one gap later
    pub raw_eof_with_last_segment: bool,
    /// the server reads Connection.Open and then never sends anything again (no OpenOk)
    pub silent_instead_of_open_ok: bool,
    /// the bytes glued to OpenOk are a Connection.Close: from then on the broker behaves as a closing server
    pub glue_is_connection_close: bool,
    pub script: Vec<(Trigger, Action)>,
    /// cut the server->client stream at this absolute offset
    pub s2c_cut: Option<(usize, CutKind)>,
    /// flip every bit of the octet at this absolute offset of the server->client stream
    pub s2c_corrupt: Option<usize>,
    /// frames per mux flush (upper bound)
    pub mux_burst_max: u32,
    pub mux_gap_max_ns: u64,
    /// handshake override (C16); None = cooperative
    pub handshake: Option<Vec<HsStep>>,
    /// per-mille of spurious wake-ups injected per s2c segment
    pub spurious_permille: u32,
    /// consumer tags are "ctag-<channel>-<n-th consumer on it>" instead of globally unique
    pub fixed_consumer_tags: bool,
    /// extra delay before the server answers a client Connection.Close with CloseOk
    pub closeok_delay_ns: u64,
    /// extra delay before the server answers Connection.Open with OpenOk
    pub open_ok_delay_ns: u64,
}

/// One step of a scripted handshake: what the server does after receiving the
/// thing named by `after`.
#[derive(Clone, Debug, PartialEq)]
pub struct HsStep {
    pub after: HsAfter,
    pub send: Vec<Vec<u8>>,
    pub then: HsThen,
}

#[derive(Clone, Debug, PartialEq)]
pub enum HsAfter {
    ProtocolHeader,
    StartOk,
    TuneOk,
    Open,
    CloseOk,
    /// unconditionally, `ns` after the previous step fired
    Delay(u64),
}

#[derive(Clone, Debug, PartialEq)]
pub enum HsThen {
    Continue,
    Eof,
    Reset,
    /// become the normal cooperative broker (connection is open)
    Steady,
}

impl Default for BrokerCfg {
    fn default() -> Self {
        let mut sp = FieldTable::new();
        sp.insert("product".to_string(), AMQPValue::LongString("simbroker".to_string()));
        BrokerCfg {
            mechanisms: "PLAIN AMQPLAIN EXTERNAL".to_string(),
            locales: "en_US".to_string(),
            server_properties: sp,
            tune: (2047, 131072, 60),
            think_min_ns: 0,
            think_max_ns: 0,
            s2c_lat_min_ns: 10_000,
            s2c_lat_max_ns: 10_000,
            seg_mode: SegMode::Whole,
            seg_gap_max_ns: 0,
            deliveries_for_queue: Vec::new(),
            deliveries_min: 0,
            deliveries_max: 0,
            body_max: 64,
            get_empty_permille: 300,
            return_permille: 0,
            confirm_style: 0,
            heartbeat_every_ns: None,
            closeok_mode: CloseOkMode::Later,
            eof_after_server_close: true,
            glue_after_open_ok: None,
            raw_eof_with_last_segment: false,
            silent_instead_of_open_ok: false,
            glue_is_connection_close: false,
            script: Vec::new(),
            s2c_cut: None,
            s2c_corrupt: None,
            mux_burst_max: 1,
            mux_gap_max_ns: 0,
            handshake: None,
            spurious_permille: 0,
            fixed_consumer_tags: false,
            closeok_delay_ns: 0,
            open_ok_delay_ns: 0,
        }
    }
}

#[derive(Debug)]
pub enum BrokerEv {
    /// put frames on the mux queue of a channel
    Enqueue { ch: u16, frames: Vec<Vec<u8>>, what: SentKind, epoch: u32 },
    Flush,
    /// the remainder of `glue_after_open_ok`
    GlueRest(Vec<u8>),
    Heartbeat,
    Script(usize),
    HsDelay(usize),
    EofNow,
    /// a scripted action whose target did not exist yet
    Retry(Action, u32),
}

/// What the broker has put on the wire, in order of enqueueing per channel.
#[derive(Clone, Debug, PartialEq)]
pub enum SentKind {
    Reply { ch: u16, req_no: u32, method: AMQPClass },
    Deliver { ch: u16, tag: String, msg: Message },
    GetOk { ch: u16, req_no: u32, msg: Message, message_count: u32 },
    GetEmpty { ch: u16, req_no: u32 },
    Return { ch: u16, code: u16, text: String, msg: Message },
    Confirm { ch: u16, ack: bool, tag: u64, multiple: bool },
    ServerCancel { ch: u16, tag: String, nowait: bool },
    ChannelClose { ch: u16, code: u16, text: String },
    ConnectionClose { code: u16, text: String },
    ConnectionCloseOk,
    Blocked(String),
    Unblocked,
    Handshake(&'static str),
    Heartbeat,
    Raw,
}

#[derive(Clone, Debug, PartialEq)]
pub struct Message {
    pub delivery_tag: u64,
    pub redelivered: bool,
    pub exchange: String,
    pub routing_key: String,
    pub properties: AMQPProperties,
    pub body: Vec<u8>,
}

#[derive(Clone, Debug)]
pub struct SentRec {
    /// scheduler stamp at which the frames entered the server->client byte stream
    pub stamp: u64,
    pub time_ns: u64,
    /// offset in the s2c byte stream of the first / one-past-last byte
    pub s2c_start: usize,
    pub s2c_end: usize,
    pub kind: SentKind,
}

#[derive(Clone, Debug)]
pub struct InRec {
    pub stamp: u64,
    pub time_ns: u64,
    pub raw: RawFrame,
    pub frame: Option<AMQPFrame>,
}

#[derive(Clone, Debug, PartialEq)]
pub struct PublishRec {
    pub ch: u16,
    pub seq_on_channel: u32,
    pub method: basic::Publish,
    pub header: Option<amq_protocol::frame::AMQPContentHeader>,
    pub body_frames: Vec<usize>,
    pub body: Vec<u8>,
    pub complete: bool,
    pub stamp: u64,
}

#[derive(Default)]
struct ChanState {
    open: bool,
    req_no: u32,
    publishes: u32,
    confirm: bool,
    confirm_next_tag: u64,
    unconfirmed: Vec<u64>,
    consumers: Vec<(String, bool, bool)>, // tag, active, ConsumeOk on the wire
    pending_pub: Option<usize>,     // index into publishes log
    next_delivery_tag: u64,
    epoch: u32,
    /// the server has sent Channel.Close and still waits for the client's CloseOk
    awaiting_client_closeok: bool,
    /// the channel was open once (so that "never opened" and "closed" can be told apart)
    was_open: bool,
    /// the last close of this channel was initiated by the server
    closed_by_server: bool,
}

#[derive(Clone, Debug, PartialEq)]
pub enum Phase {
    AwaitHeader,
    AwaitStartOk,
    AwaitTuneOk,
    AwaitOpen,
    Open,
    ClientClosing,
    ServerClosing,
    Closed,
}

pub struct Broker {
    pub cfg: BrokerCfg,
    pub net: Net,
    pub phase: Phase,
    chans: BTreeMap<u16, ChanState>,
    uniq: u64,
    inbuf: Vec<u8>,
    got_header: bool,
    muxq: BTreeMap<u16, VecDeque<(Vec<u8>, Option<SentKind>, bool)>>,
    /// frames a real broker would answer with a connection error (504): frames on a channel whose close
    /// handshake is complete
    pub client_violations: Vec<String>,
    flush_scheduled: bool,
    glue_rest: Option<(Vec<u8>, u64)>,
    glue_pending: bool,
    pub silent: bool,
    closeok_enqueued: bool,
    open_ok_on_wire: bool,
    pub s2c: Vec<u8>,
    s2c_closed: bool,
    last_s2c_at: u64,
    script_fired: Vec<bool>,
    hs_pos: usize,
    pub negotiated: Option<connection::TuneOk>,
    // ---- logs for the oracles
    pub received: Vec<InRec>,
    pub sent: Vec<SentRec>,
    pub publishes: Vec<PublishRec>,
    pub envelope_error: Option<String>,
    pub start_ok: Option<connection::StartOk>,
    pub open: Option<connection::Open>,
    pub heartbeats_in: Vec<u64>,
    pub eof_sent_at: Option<u64>,
    pub client_close_seen: bool,
    pub stats: BrokerStats,
}

#[derive(Default, Clone, Debug)]
pub struct BrokerStats {
    pub frames_in: u64,
    pub frames_out: u64,
    pub replies: u64,
    pub deliveries: u64,
    pub returns: u64,
    pub confirms: u64,
    pub mux_interleaves: u64,
    pub segments: u64,
    pub scripted_actions: u64,
    pub body_frames_out: u64,
}

fn class_of_reply(m: &AMQPClass) -> &'static str {
    match m {
        AMQPClass::Connection(_) => "connection",
        AMQPClass::Channel(_) => "channel",
        AMQPClass::Queue(_) => "queue",
        AMQPClass::Exchange(_) => "exchange",
        AMQPClass::Basic(_) => "basic",
        AMQPClass::Confirm(_) => "confirm",
        _ => "other",
    }
}

impl Broker {
    pub fn new(cfg: BrokerCfg, net: Net) -> Broker {
        let n = cfg.script.len();
        Broker {
            cfg,
            net,
            phase: Phase::AwaitHeader,
            chans: BTreeMap::new(),
            uniq: 1000,
            inbuf: Vec::new(),
            got_header: false,
            muxq: BTreeMap::new(),
            client_violations: Vec::new(),
            flush_scheduled: false,
            glue_rest: None,
            glue_pending: false,
            silent: false,
            closeok_enqueued: false,
            open_ok_on_wire: false,
            s2c: Vec::new(),
            s2c_closed: false,
            last_s2c_at: 0,
            script_fired: vec![false; n],
            hs_pos: 0,
            negotiated: None,
            received: Vec::new(),
            sent: Vec::new(),
            publishes: Vec::new(),
            envelope_error: None,
            start_ok: None,
            open: None,
            heartbeats_in: Vec::new(),
            eof_sent_at: None,
            client_close_seen: false,
            stats: BrokerStats::default(),
        }
    }

    fn uniq(&mut self) -> u64 {
        self.uniq += 1;
        self.uniq
    }

    fn think(&self) -> u64 {
        if self.cfg.think_max_ns > self.cfg.think_min_ns {
            let span = ((self.cfg.think_max_ns - self.cfg.think_min_ns) / 1000).max(1) as u32;
            self.cfg.think_min_ns + simrt::choose("think", span) as u64 * 1000
        } else {
            self.cfg.think_min_ns
        }
    }

    pub fn frame_max(&self) -> usize {
        match &self.negotiated {
            Some(t) if t.frame_max > 0 => t.frame_max as usize,
            _ => 131072,
        }
    }

    // ------------------------------------------------------------ output side

    /// Enqueue frames on a channel's mux queue after `delay`.
    fn enqueue_after(&mut self, delay: u64, ch: u16, frames: Vec<Vec<u8>>, what: SentKind) {
        if delay == 0 {
            self.enqueue_now(ch, frames, what);
        } else {
            let epoch = self.chans.get(&ch).map(|c| c.epoch).unwrap_or(0);
            simrt::schedule_in(delay, true, "broker.enqueue", Box::new(BrokerEv::Enqueue { ch, frames, what, epoch }));
        }
    }

    fn enqueue_now(&mut self, ch: u16, frames: Vec<Vec<u8>>, what: SentKind) {
        if self.silent || self.s2c_closed || self.closeok_enqueued {
            return;
        }
        if let SentKind::Handshake("open-ok") = &what {
            self.open_ok_on_wire = true;
        }
        if let SentKind::ConnectionCloseOk = &what {
            // nothing follows the CloseOk
            self.closeok_enqueued = true;
        }
        // a real broker sends nothing on a channel it considers closed, no delivery for a
        // cancelled consumer, and nothing but the close handshake once the connection closes
        let conn_closing = matches!(self.phase, Phase::ServerClosing | Phase::Closed);
        let allowed = match &what {
            SentKind::Raw | SentKind::ChannelClose { .. } | SentKind::ConnectionClose { .. } | SentKind::ConnectionCloseOk => true,
            SentKind::Reply { method: AMQPClass::Channel(Ch::CloseOk(_)), .. } => !conn_closing,
            SentKind::Deliver { ch, tag, .. } => {
                !conn_closing
                    && self.chans.get(ch).map(|c| c.open && c.consumers.iter().any(|x| &x.0 == tag && x.1)).unwrap_or(false)
            }
            _ => !conn_closing && (ch == 0 || self.chans.get(&ch).map(|c| c.open).unwrap_or(false)),
        };
        if !allowed {
            return;
        }
        if let SentKind::Reply { ch: c, method: AMQPClass::Basic(B::ConsumeOk(ok)), .. } = &what {
            if let Some(cs) = self.chans.get_mut(c) {
                for x in cs.consumers.iter_mut() {
                    if x.0 == ok.consumer_tag {
                        x.2 = true;
                    }
                }
            }
        }
        let q = self.muxq.entry(ch).or_default();
        let n = frames.len();
        for (i, f) in frames.into_iter().enumerate() {
            // the record is attached to the last frame: the message is "sent" once complete
            let rec = if i + 1 == n { Some(what.clone()) } else { None };
            q.push_back((f, rec, i == 0));
        }
        self.schedule_flush(0);
    }

    /// Drop what is queued for `ch`; a message whose first frames already went out is
    /// completed unless `truncate`.
    fn clear_queue(&mut self, ch: u16, truncate: bool) {
        if let Some(q) = self.muxq.get_mut(&ch) {
            let mut keep = VecDeque::new();
            if !truncate {
                if let Some(front) = q.front() {
                    if !front.2 {
                        while let Some(e) = q.pop_front() {
                            let last = e.1.is_some();
                            keep.push_back(e);
                            if last {
                                break;
                            }
                        }
                    }
                }
            }
            *q = keep;
        }
    }

    fn schedule_flush(&mut self, delay: u64) {
        if !self.flush_scheduled {
            self.flush_scheduled = true;
            simrt::schedule_in(delay, true, "broker.flush", Box::new(BrokerEv::Flush));
        }
    }

    fn flush(&mut self) {
        self.flush_scheduled = false;
        if self.silent || self.s2c_closed {
            self.muxq.clear();
            return;
        }
        if self.glue_pending {
            // the second part of the bytes glued to OpenOk goes out first
            return;
        }
        let burst = 1 + if self.cfg.mux_burst_max > 1 { simrt::choose("mux_burst", self.cfg.mux_burst_max) } else { 0 };
        let mut out = Vec::new();
        let mut recs: Vec<(usize, usize, SentKind)> = Vec::new();
        let mut last_ch: Option<u16> = None;
        let mut cur_start = self.s2c.len();
        for _ in 0..burst.max(1) {
            let chans: Vec<u16> = self.muxq.iter().filter(|(_, q)| !q.is_empty()).map(|(c, _)| *c).collect();
            if chans.is_empty() {
                break;
            }
            let pick = chans[simrt::choose("mux_pick", chans.len() as u32) as usize];
            if let Some(l) = last_ch {
                if l != pick {
                    self.stats.mux_interleaves += 1;
                }
            }
            last_ch = Some(pick);
            // a channel-0 frame or a method goes alone; keep popping frames of the
            // same channel while cfg says whole messages (burst==1 && mux_burst_max==1)
            let whole = self.cfg.mux_burst_max <= 1;
            loop {
                let q = self.muxq.get_mut(&pick).unwrap();
                let (f, rec, _first) = match q.pop_front() {
                    Some(x) => x,
                    None => break,
                };
                self.stats.frames_out += 1;
                if f.first() == Some(&3) {
                    self.stats.body_frames_out += 1;
                }
                out.extend_from_slice(&f);
                if let Some(r) = rec {
                    let end = self.s2c.len() + out.len();
                    recs.push((cur_start, end, r));
                    cur_start = end;
                    if whole {
                        break;
                    }
                }
                if !whole {
                    break;
                }
            }
        }
        self.muxq.retain(|_, q| !q.is_empty());
        if !out.is_empty() {
            let stamp = simrt::stamp();
            let now = simrt::now_ns();
            let mut open_ok_out = false;
            for (s, e, k) in recs {
                open_ok_out |= k == SentKind::Handshake("open-ok");
                self.sent.push(SentRec { stamp, time_ns: now, s2c_start: s, s2c_end: e, kind: k });
            }
            self.push_s2c(&out);
            if open_ok_out && self.cfg.glue_is_connection_close {
                self.phase = Phase::ServerClosing;
            }
            if open_ok_out {
                if let Some((rest, gap)) = self.glue_rest.take() {
                    self.glue_pending = true;
                    simrt::schedule_in(gap, true, "broker.glue", Box::new(BrokerEv::GlueRest(rest)));
                    return;
                }
            }
        }
        if self.muxq.values().any(|q| !q.is_empty()) {
            let gap = if self.cfg.mux_gap_max_ns > 0 {
                simrt::choose("mux_gap", (self.cfg.mux_gap_max_ns / 1000).max(1) as u32) as u64 * 1000
            } else {
                0
            };
            self.schedule_flush(gap);
        }
    }

    /// Append bytes to the server->client stream and schedule their arrival.
    fn push_s2c(&mut self, bytes: &[u8]) {
        if self.s2c_closed {
            return;
        }
        let start = self.s2c.len();
        let mut bytes = bytes.to_vec();
        let mut cut_now: Option<CutKind> = None;
        if let Some((at, kind)) = &self.cfg.s2c_cut {
            if start + bytes.len() >= *at {
                let keep = at.saturating_sub(start);
                bytes.truncate(keep);
                cut_now = Some(kind.clone());
            }
        }
        if let Some(c) = self.cfg.s2c_corrupt {
            if c >= start && c < start + bytes.len() {
                bytes[c - start] ^= 0xFF;
                self.stats.scripted_actions += 1;
            }
        }
        self.s2c.extend_from_slice(&bytes);
        let now = simrt::now_ns();
        let lat = if self.cfg.s2c_lat_max_ns > self.cfg.s2c_lat_min_ns {
            let span = ((self.cfg.s2c_lat_max_ns - self.cfg.s2c_lat_min_ns) / 1000).max(1) as u32;
            self.cfg.s2c_lat_min_ns + simrt::choose("s2c_lat", span) as u64 * 1000
        } else {
            self.cfg.s2c_lat_min_ns
        };
        let mut at = (now + lat).max(self.last_s2c_at);
        let mut pos = 0;
        while pos < bytes.len() {
            let rest = bytes.len() - pos;
            let seg = match self.cfg.seg_mode {
                SegMode::Whole => rest,
                SegMode::Mtu => rest.min(1460),
                SegMode::Small => rest.min(1 + simrt::choose("seg_small", 64) as usize),
                SegMode::Byte => 1,
                SegMode::Random => {
                    if rest > 1 {
                        1 + simrt::choose("seg_rand", rest as u32) as usize
                    } else {
                        1
                    }
                }
            };
            let seg = seg.max(1).min(rest);
            let chunk = bytes[pos..pos + seg].to_vec();
            pos += seg;
            self.stats.segments += 1;
            simrt::schedule(at, true, "net.s2c", Box::new(NetEv::S2C { bytes: chunk }));
            if self.cfg.spurious_permille > 0 && simrt::choose("spurious", 1000) >= 1000 - self.cfg.spurious_permille {
                simrt::schedule(at + 500, true, "net.spurious", Box::new(NetEv::Spurious));
            }
            if pos < bytes.len() && self.cfg.seg_gap_max_ns > 0 {
                at += simrt::choose("seg_gap", (self.cfg.seg_gap_max_ns / 1000).max(1) as u32) as u64 * 1000;
            }
        }
        self.last_s2c_at = at;
        if let Some(kind) = cut_now {
            self.s2c_closed = true;
            self.eof_sent_at = Some(now);
            match kind {
                CutKind::Eof => simrt::schedule(at + 1, true, "net.eof", Box::new(NetEv::S2CEof)),
                CutKind::Reset => simrt::schedule(at + 1, true, "net.reset", Box::new(NetEv::S2CReset)),
            }
        }
    }

    pub fn send_eof(&mut self, reset: bool) {
        if self.s2c_closed || self.silent {
            return;
        }
        // anything still on the mux queues goes out first
        self.flush_all();
        self.s2c_closed = true;
        self.eof_sent_at = Some(simrt::now_ns());
        let at = self.last_s2c_at.max(simrt::now_ns() + self.cfg.s2c_lat_min_ns) + 1;
        self.last_s2c_at = at;
        if reset {
            simrt::schedule(at, true, "net.reset", Box::new(NetEv::S2CReset));
        } else {
            simrt::schedule(at, true, "net.eof", Box::new(NetEv::S2CEof));
        }
    }

    fn m(ch: u16, class: AMQPClass) -> Vec<u8> {
        let mut b = Vec::new();
        wire::method(&mut b, ch, &class);
        b
    }

    /// frames of one content-bearing message: method, header, body frames cut
    /// at choice-driven points (each <= frame_max - 8)
    fn content_frames(&mut self, ch: u16, method: AMQPClass, msg: &Message) -> Vec<Vec<u8>> {
        let mut frames = vec![Self::m(ch, method)];
        let mut h = Vec::new();
        wire::header(&mut h, ch, 60, msg.body.len() as u64, &msg.properties);
        frames.push(h);
        let max_payload = self.frame_max() - 8;
        let mut pos = 0;
        let style = simrt::choose("body_split", 4);
        while pos < msg.body.len() {
            let rest = msg.body.len() - pos;
            let n = match style {
                0 => rest.min(max_payload),
                1 => 1,
                2 => (1 + simrt::choose("body_piece", rest.min(max_payload) as u32) as usize).min(rest),
                _ => rest.min(max_payload).min(1 + simrt::choose("body_piece_small", 16) as usize),
            };
            let mut b = Vec::new();
            wire::body(&mut b, ch, &msg.body[pos..pos + n]);
            frames.push(b);
            pos += n;
        }
        frames
    }

    fn gen_message(&mut self, ch: u16, what: &str) -> Message {
        let u = self.uniq();
        let len = if self.cfg.body_max > 0 {
            // bias to small and boundary sizes
            match simrt::choose("msg_len_kind", 6) {
                0 => 0,
                1 => 1,
                2 => simrt::choose("msg_len", 32) as usize,
                3 => self.cfg.body_max,
                _ => simrt::choose("msg_len_any", self.cfg.body_max as u32 + 1) as usize,
            }
        } else {
            0
        };
        let mut body = Vec::with_capacity(len);
        let tagbytes = format!("<{}#{}:{}>", what, ch, u).into_bytes();
        while body.len() < len {
            let i = body.len();
            body.push(tagbytes[i % tagbytes.len()] ^ ((i / tagbytes.len()) as u8));
        }
        let mut props = AMQPProperties::default();
        let pk = simrt::choose("msg_props", 4);
        if pk >= 1 {
            props = props.with_message_id(format!("mid-{}", u));
        }
        if pk >= 2 {
            props = props.with_content_type("application/x-sim".to_string()).with_delivery_mode(2).with_priority((u % 10) as u8);
        }
        if pk >= 3 {
            let mut t = FieldTable::new();
            t.insert("k".to_string(), AMQPValue::LongLongInt(u as i64));
            t.insert("s".to_string(), AMQPValue::LongString(format!("v{}", u)));
            props = props.with_headers(t).with_timestamp(u).with_type_("t".to_string()).with_app_id("sim".to_string());
        }
        let cs = self.chans.entry(ch).or_default();
        cs.next_delivery_tag += 1;
        Message {
            delivery_tag: cs.next_delivery_tag,
            redelivered: u % 3 == 0,
            exchange: format!("ex-{}", u),
            routing_key: format!("rk-{}-{}", ch, u),
            properties: props,
            body,
        }
    }

    // ------------------------------------------------------------- input side

    pub fn on_event(&mut self, ev: BrokerEv) {
        match ev {
            BrokerEv::Enqueue { ch, frames, what, epoch } => {
                // a reply decided for an earlier incarnation of the channel id is not sent on the new one
                if ch == 0 || self.chans.get(&ch).map(|c| c.epoch).unwrap_or(0) == epoch {
                    self.enqueue_now(ch, frames, what)
                }
            }
            BrokerEv::Flush => self.flush(),
            BrokerEv::GlueRest(bytes) => {
                self.glue_pending = false;
                if !self.silent && !self.s2c_closed {
                    let start = self.s2c.len();
                    self.sent.push(SentRec { stamp: simrt::stamp(), time_ns: simrt::now_ns(), s2c_start: start, s2c_end: start + bytes.len(), kind: SentKind::Handshake("glue-rest") });
                    self.push_s2c(&bytes);
                }
                self.schedule_flush(0);
            }
            BrokerEv::Heartbeat => {
                if !self.silent && !self.s2c_closed && self.phase != Phase::Closed {
                    let mut b = Vec::new();
                    wire::heartbeat(&mut b);
                    self.enqueue_now(0, vec![b], SentKind::Heartbeat);
                    if let Some(p) = self.cfg.heartbeat_every_ns {
                        simrt::schedule_in(p, false, "broker.heartbeat", Box::new(BrokerEv::Heartbeat));
                    }
                }
            }
            BrokerEv::Script(i) => self.fire_script(i),
            BrokerEv::HsDelay(i) => self.hs_fire(i),
            BrokerEv::EofNow => self.send_eof(false),
            BrokerEv::Retry(a, n) => self.do_action_n(a, n),
        }
    }

    pub fn on_bytes(&mut self, bytes: &[u8]) {
        self.inbuf.extend_from_slice(bytes);
        if !self.got_header {
            if self.inbuf.len() < 8 {
                return;
            }
            if &self.inbuf[..8] != wire::PROTOCOL_HEADER {
                self.envelope_error = Some(format!("bad protocol header {:?}", &self.inbuf[..8]));
                return;
            }
            self.got_header = true;
            self.inbuf.drain(..8);
            self.on_protocol_header();
        }
        loop {
            if self.envelope_error.is_some() || self.inbuf.len() < 7 {
                return;
            }
            let size = u32::from_be_bytes([self.inbuf[3], self.inbuf[4], self.inbuf[5], self.inbuf[6]]) as usize;
            if self.inbuf.len() < size + 8 {
                return;
            }
            let bytes: Vec<u8> = self.inbuf.drain(..size + 8).collect();
            let ty = bytes[0];
            let channel = u16::from_be_bytes([bytes[1], bytes[2]]);
            if bytes[size + 7] != 0xCE || !(ty == 1 || ty == 2 || ty == 3 || ty == 8) {
                self.envelope_error = Some(format!("bad frame envelope type={} end={:#x}", ty, bytes[size + 7]));
                return;
            }
            let raw = RawFrame { offset: 0, ty, channel, payload_len: size, bytes };
            let frame = wire::decode(&raw);
            self.stats.frames_in += 1;
            self.received.push(InRec { stamp: simrt::stamp(), time_ns: simrt::now_ns(), raw, frame: frame.clone() });
            if let Some(f) = frame {
                self.on_frame(f);
            } else {
                self.envelope_error = Some("undecodable frame".to_string());
            }
        }
    }

    fn on_protocol_header(&mut self) {
        if self.cfg.handshake.is_some() {
            self.hs_on(HsAfter::ProtocolHeader);
            return;
        }
        let start = connection::Start {
            version_major: 0,
            version_minor: 9,
            server_properties: self.cfg.server_properties.clone(),
            mechanisms: self.cfg.mechanisms.clone(),
            locales: self.cfg.locales.clone(),
        };
        self.phase = Phase::AwaitStartOk;
        let t = self.think();
        self.enqueue_after(t, 0, vec![Self::m(0, AMQPClass::Connection(Cn::Start(start)))], SentKind::Handshake("start"));
    }

    fn hs_on(&mut self, what: HsAfter) {
        let steps = self.cfg.handshake.clone().unwrap();
        if self.hs_pos < steps.len() && steps[self.hs_pos].after == what {
            let i = self.hs_pos;
            self.hs_fire(i);
        }
    }

    fn hs_fire(&mut self, i: usize) {
        let steps = self.cfg.handshake.clone().unwrap();
        if i != self.hs_pos || i >= steps.len() {
            return;
        }
        let st = steps[i].clone();
        self.hs_pos += 1;
        if !st.send.is_empty() {
            self.enqueue_now(0, st.send.clone(), SentKind::Handshake("scripted"));
            self.flush_all();
        }
        match st.then {
            HsThen::Continue => {}
            HsThen::Eof => self.send_eof(false),
            HsThen::Reset => self.send_eof(true),
            HsThen::Steady => {
                self.phase = Phase::Open;
                self.after_open();
            }
        }
        if self.hs_pos < steps.len() {
            if let HsAfter::Delay(ns) = steps[self.hs_pos].after {
                simrt::schedule_in(ns, true, "broker.hs_delay", Box::new(BrokerEv::HsDelay(self.hs_pos)));
            }
        }
    }

    /// push everything queued into the byte stream right now (no interleaving games)
    /// frames not yet handed to the network
    pub fn pending_output(&self) -> usize {
        self.muxq.values().map(|q| q.len()).sum()
    }

    fn flush_all(&mut self) {
        let mut guard = 0;
        while self.muxq.values().any(|q| !q.is_empty()) && guard < 100000 {
            self.flush_scheduled = true;
            self.flush();
            guard += 1;
        }
    }

    fn after_open(&mut self) {
        if let Some(p) = self.cfg.heartbeat_every_ns {
            simrt::schedule_in(p, false, "broker.heartbeat", Box::new(BrokerEv::Heartbeat));
        }
        for i in 0..self.cfg.script.len() {
            match self.cfg.script[i].0.clone() {
                Trigger::OnOpen => self.fire_script(i),
                Trigger::AtTime(t) => simrt::schedule(t, true, "broker.script", Box::new(BrokerEv::Script(i))),
                _ => {}
            }
        }
    }

    /// number the synchronous request that just arrived on `ch` and run scripted reactions;
    /// returns (req_no, answer_it)
    fn begin_request(&mut self, ch: u16) -> (u32, bool) {
        self.begin_request_x(ch, true)
    }

    fn begin_request_x(&mut self, ch: u16, scripted: bool) -> (u32, bool) {
        let cs = self.chans.entry(ch).or_default();
        let req_no = cs.req_no;
        cs.req_no += 1;
        if !scripted {
            return (req_no, true);
        }
        // scripted reaction instead of / in addition to the reply?
        let mut instead = false;
        for i in 0..self.cfg.script.len() {
            if self.script_fired[i] {
                continue;
            }
            if let Trigger::OnRequest { ch: c, nth, instead: ins } = self.cfg.script[i].0.clone() {
                if c == ch && nth == req_no {
                    if ins {
                        instead = true;
                    }
                    self.fire_script(i);
                }
            }
        }
        (req_no, !instead)
    }

    fn reply(&mut self, ch: u16, method: AMQPClass) {
        let _ = self.reply_b(ch, method);
    }

    /// returns false when a scripted reaction replaced the reply
    fn reply_b(&mut self, ch: u16, method: AMQPClass) -> bool {
        // a close request is always answered: scripted reactions do not replace CloseOk
        let scripted = !matches!(method, AMQPClass::Channel(Ch::CloseOk(_)));
        let (req_no, answer) = self.begin_request_x(ch, scripted);
        if !answer {
            return false;
        }
        self.stats.replies += 1;
        let _ = class_of_reply(&method);
        let t = self.think();
        let f = Self::m(ch, method.clone());
        self.enqueue_after(t, ch, vec![f], SentKind::Reply { ch, req_no, method });
        true
    }

    /// count a request that gets no reply (nowait) — nothing to do, kept for symmetry
    fn no_reply(&mut self, _ch: u16) {}

    fn fire_script(&mut self, i: usize) {
        if self.script_fired[i] {
            return;
        }
        self.script_fired[i] = true;
        // a fallback entry (same action under another trigger) does nothing once the action has run
        if matches!(self.cfg.script[i].1, Action::CloseChannel { .. } | Action::CloseConnection { .. } | Action::CancelConsumer { .. }) {
            for j in 0..self.cfg.script.len() {
                if j != i && self.script_fired[j] && self.cfg.script[j].1 == self.cfg.script[i].1 {
                    return;
                }
            }
        }
        self.stats.scripted_actions += 1;
        let action = self.cfg.script[i].1.clone();
        self.do_action(action);
    }

    pub fn do_action(&mut self, action: Action) {
        self.do_action_n(action, 0)
    }

    fn retry_later(&mut self, action: Action, n: u32) {
        let alive = matches!(self.phase, Phase::Open | Phase::AwaitHeader | Phase::AwaitStartOk | Phase::AwaitTuneOk | Phase::AwaitOpen);
        if n < 40000 && alive && !self.s2c_closed {
            simrt::schedule_in(250_000, true, "broker.retry", Box::new(BrokerEv::Retry(action, n + 1)));
        }
    }

    fn do_action_n(&mut self, action: Action, attempt: u32) {
        match action {
            Action::CloseChannel { ch, code, text } => {
                if self.phase != Phase::Open {
                    return;
                }
                match self.chans.get(&ch) {
                    None => {
                        // not opened yet: try again a little later
                        self.retry_later(Action::CloseChannel { ch, code, text }, attempt);
                        return;
                    }
                    Some(c) if !c.open => return, // already closed by either side
                    _ => {}
                }
                let close = channel::Close { reply_code: code, reply_text: text.clone(), class_id: 0, method_id: 0 };
                if let Some(cs) = self.chans.get_mut(&ch) {
                    cs.open = false;
                    cs.awaiting_client_closeok = true;
                    cs.closed_by_server = true;
                    for c in cs.consumers.iter_mut() {
                        c.1 = false;
                    }
                }
                // frames of this channel still queued (deliveries, replies) are dropped: the
                // server closes instead of continuing; whether a half-sent content is cut short is a choice
                let truncate = simrt::choose("close_truncates_content", 2) == 1;
                self.clear_queue(ch, truncate);
                self.enqueue_now(ch, vec![Self::m(ch, AMQPClass::Channel(Ch::Close(close)))], SentKind::ChannelClose { ch, code, text });
            }
            Action::CancelThenCloseChannel { ch, nth_consumer, nowait, code, text } => {
                self.do_action_n(Action::CancelConsumer { ch, nth_consumer, nowait }, 40001);
                self.flush_all();
                self.do_action_n(Action::CloseChannel { ch, code, text }, 40001);
            }
            Action::CancelThenCloseConnection { ch, nth_consumer, nowait, code, text } => {
                self.do_action_n(Action::CancelConsumer { ch, nth_consumer, nowait }, 40001);
                self.flush_all();
                self.do_action_n(Action::CloseConnection { code, text }, 40001);
            }
            Action::CloseConnection { code, text } => {
                let handshaking = matches!(self.phase, Phase::AwaitHeader | Phase::AwaitStartOk | Phase::AwaitTuneOk | Phase::AwaitOpen) || (self.phase == Phase::Open && !self.open_ok_on_wire);
                if handshaking && self.cfg.handshake.is_none() {
                    // a scripted close aimed at the open connection: wait until it is open
                    self.retry_later(Action::CloseConnection { code, text }, attempt);
                    return;
                }
                if self.phase != Phase::Open {
                    return;
                }
                let close = connection::Close { reply_code: code, reply_text: text.clone(), class_id: 0, method_id: 0 };
                self.phase = Phase::ServerClosing;
                // a server that closes stops everything else
                let chs: Vec<u16> = self.muxq.keys().cloned().collect();
                for c in chs {
                    // nothing may follow Connection.Close; a content cut short by it is legal
                    // (the close travels on channel 0)
                    self.clear_queue(c, true);
                }
                self.enqueue_now(0, vec![Self::m(0, AMQPClass::Connection(Cn::Close(close)))], SentKind::ConnectionClose { code, text });
            }
            Action::CancelConsumer { ch, nth_consumer, nowait } => {
                if self.phase != Phase::Open {
                    return;
                }
                // the consumer exists for the client only once its ConsumeOk is on the wire
                let exists = self.chans.get(&ch).map(|c| (c.open, c.consumers.get(nth_consumer as usize).map(|x| x.2).unwrap_or(false)));
                match exists {
                    None | Some((true, false)) => {
                        // channel or consumer not there yet: try again a little later
                        self.retry_later(Action::CancelConsumer { ch, nth_consumer, nowait }, attempt);
                        return;
                    }
                    Some((false, _)) => return,
                    _ => {}
                }
                let tag = self.chans.get_mut(&ch).and_then(|cs| {
                    cs.consumers.get_mut(nth_consumer as usize).and_then(|c| {
                        if c.1 {
                            c.1 = false;
                            Some(c.0.clone())
                        } else {
                            None
                        }
                    })
                });
                if let Some(tag) = tag {
                    let cancel = basic::Cancel { consumer_tag: tag.clone(), nowait };
                    self.enqueue_now(ch, vec![Self::m(ch, AMQPClass::Basic(B::Cancel(cancel)))], SentKind::ServerCancel { ch, tag, nowait });
                }
            }
            Action::DeliverMore { ch, nth_consumer, count } => {
                if self.phase != Phase::Open {
                    return;
                }
                let exists = self.chans.get(&ch).map(|c| (c.open, c.consumers.get(nth_consumer as usize).map(|x| x.2).unwrap_or(false)));
                match exists {
                    None | Some((true, false)) => {
                        self.retry_later(Action::DeliverMore { ch, nth_consumer, count }, attempt);
                        return;
                    }
                    Some((false, _)) => return,
                    _ => {}
                }
                let tag = self.chans.get(&ch).and_then(|cs| cs.consumers.get(nth_consumer as usize).and_then(|c| if c.1 { Some(c.0.clone()) } else { None }));
                if let Some(tag) = tag {
                    for _ in 0..count {
                        let msg = self.gen_message(ch, "deliver");
                        let d = basic::Deliver { consumer_tag: tag.clone(), delivery_tag: msg.delivery_tag, redelivered: msg.redelivered, exchange: msg.exchange.clone(), routing_key: msg.routing_key.clone() };
                        let frames = self.content_frames(ch, AMQPClass::Basic(B::Deliver(d)), &msg);
                        self.stats.deliveries += 1;
                        self.enqueue_now(ch, frames, SentKind::Deliver { ch, tag: tag.clone(), msg });
                    }
                }
            }
            Action::Blocked(reason) => {
                let b = connection::Blocked { reason: reason.clone() };
                self.enqueue_now(0, vec![Self::m(0, AMQPClass::Connection(Cn::Blocked(b)))], SentKind::Blocked(reason));
            }
            Action::Unblocked => {
                self.enqueue_now(0, vec![Self::m(0, AMQPClass::Connection(Cn::Unblocked(connection::Unblocked {})))], SentKind::Unblocked);
            }
            Action::Raw { ch, frames } => {
                self.enqueue_now(ch, frames, SentKind::Raw);
            }
            Action::RawStream { bytes, cuts, gap_ns, then_eof } => {
                self.flush_all();
                let start = self.s2c.len();
                let now = simrt::now_ns();
                let mut at = (now + self.cfg.s2c_lat_min_ns).max(self.last_s2c_at);
                let mut pos = 0usize;
                let mut cuts = cuts.clone();
                cuts.retain(|c| *c > 0 && *c < bytes.len());
                cuts.sort();
                cuts.dedup();
                cuts.push(bytes.len());
                for c in cuts {
                    let chunk = bytes[pos..c].to_vec();
                    pos = c;
                    self.stats.segments += 1;
                    simrt::schedule(at, true, "net.s2c", Box::new(NetEv::S2C { bytes: chunk }));
                    // an empty readable wake-up between two segments (possibly in the middle of a frame)
                    if self.cfg.spurious_permille > 0 && simrt::choose("spurious", 1000) >= 1000 - self.cfg.spurious_permille {
                        simrt::schedule(at + gap_ns / 2, true, "net.spurious", Box::new(NetEv::Spurious));
                    }
                    at += gap_ns;
                }
                self.s2c.extend_from_slice(&bytes);
                self.last_s2c_at = at;
                self.sent.push(SentRec { stamp: simrt::stamp(), time_ns: now, s2c_start: start, s2c_end: self.s2c.len(), kind: SentKind::Raw });
                if then_eof {
                    self.s2c_closed = true;
                    self.eof_sent_at = Some(now);
                    let eof_at = if self.cfg.raw_eof_with_last_segment { at.saturating_sub(gap_ns) } else { at };
                    simrt::schedule(eof_at, true, "net.eof", Box::new(NetEv::S2CEof));
                }
            }
            Action::Eof => {
                self.flush_all();
                self.send_eof(false)
            }
            Action::Reset => {
                self.flush_all();
                self.send_eof(true)
            }
            Action::Silence => {
                // once the CloseOk that answers the client's Connection.Close is on its way the session is over:
                // falling silent after that is not a fault any more (and must not count as one that fired)
                if !self.closeok_enqueued {
                    self.silent = true;
                }
            }
            Action::Confirm { ch, ack, tag, multiple } => {
                let m = if ack {
                    AMQPClass::Basic(B::Ack(basic::Ack { delivery_tag: tag, multiple }))
                } else {
                    AMQPClass::Basic(B::Nack(basic::Nack { delivery_tag: tag, multiple, requeue: false }))
                };
                self.stats.confirms += 1;
                self.enqueue_now(ch, vec![Self::m(ch, m)], SentKind::Confirm { ch, ack, tag, multiple });
            }
        }
    }

    fn on_frame(&mut self, f: AMQPFrame) {
        match f {
            AMQPFrame::Heartbeat(_) => {
                self.heartbeats_in.push(simrt::now_ns());
            }
            AMQPFrame::ProtocolHeader => {}
            AMQPFrame::Method(ch, class) => self.on_method(ch, class),
            AMQPFrame::Header(ch, _class, h) => {
                if !self.chans.get(&ch).map(|c| c.open).unwrap_or(false) {
                    self.note_frame_on_closed_channel(ch, "content header");
                }
                let idx = self.chans.entry(ch).or_default().pending_pub;
                if let Some(i) = idx {
                    let done = h.body_size == 0;
                    self.publishes[i].header = Some(*h);
                    if done {
                        self.publish_complete(ch, i);
                    }
                }
            }
            AMQPFrame::Body(ch, b) => {
                if !self.chans.get(&ch).map(|c| c.open).unwrap_or(false) {
                    self.note_frame_on_closed_channel(ch, "content body");
                }
                let idx = self.chans.entry(ch).or_default().pending_pub;
                if let Some(i) = idx {
                    self.publishes[i].body_frames.push(b.len());
                    self.publishes[i].body.extend_from_slice(&b);
                    let want = self.publishes[i].header.as_ref().map(|h| h.body_size as usize).unwrap_or(0);
                    if self.publishes[i].body.len() >= want {
                        self.publish_complete(ch, i);
                    }
                }
            }
        }
    }

    /// A frame on a channel that is not open.  While the server still waits for the client's CloseOk it
    /// discards such frames (the client may not have seen the Close yet); once the close handshake is
    /// complete a real broker answers 504 CHANNEL_ERROR and drops the connection.
    fn note_frame_on_closed_channel(&mut self, ch: u16, what: &str) {
        if let Some(cs) = self.chans.get(&ch) {
            if cs.was_open && !cs.open && !cs.awaiting_client_closeok {
                let w: String = what.chars().take(100).collect();
                let who = if cs.closed_by_server { "server-closed" } else { "client-closed" };
                self.client_violations.push(format!("{}: frame on channel {} after its close handshake was complete: {}", who, ch, w));
            }
        }
    }

    fn publish_complete(&mut self, ch: u16, i: usize) {
        self.publishes[i].complete = true;
        let cs = self.chans.entry(ch).or_default();
        cs.pending_pub = None;
        let nth = cs.publishes;
        cs.publishes += 1;
        let confirm = cs.confirm;
        let mut tag = 0;
        if confirm {
            cs.confirm_next_tag += 1;
            tag = cs.confirm_next_tag;
            cs.unconfirmed.push(tag);
        }
        // scripted reactions
        for s in 0..self.cfg.script.len() {
            if self.script_fired[s] {
                continue;
            }
            if let Trigger::OnPublish { ch: c, nth: n } = self.cfg.script[s].0.clone() {
                if c == ch && n == nth {
                    self.fire_script(s);
                }
            }
        }
        let mandatory = self.publishes[i].method.mandatory;
        if mandatory && self.cfg.return_permille > 0 && simrt::choose("return", 1000) >= 1000 - self.cfg.return_permille {
            let p = &self.publishes[i];
            let msg = Message {
                delivery_tag: 0,
                redelivered: false,
                exchange: p.method.exchange.clone(),
                routing_key: p.method.routing_key.clone(),
                properties: p.header.as_ref().map(|h| h.properties.clone()).unwrap_or_default(),
                body: p.body.clone(),
            };
            let code = 312;
            let text = format!("NO_ROUTE-{}", self.uniq());
            let ret = basic::Return { reply_code: code, reply_text: text.clone(), exchange: msg.exchange.clone(), routing_key: msg.routing_key.clone() };
            let frames = self.content_frames(ch, AMQPClass::Basic(B::Return(ret)), &msg);
            self.stats.returns += 1;
            let t = self.think();
            self.enqueue_after(t, ch, frames, SentKind::Return { ch, code, text, msg });
        }
        if confirm {
            self.gen_confirms(ch, tag);
        }
    }

    fn gen_confirms(&mut self, ch: u16, _new_tag: u64) {
        let style = self.cfg.confirm_style;
        let cs = self.chans.get_mut(&ch).unwrap();
        if style == 0 {
            let tags: Vec<u64> = cs.unconfirmed.drain(..).collect();
            for t in tags {
                let th = self.think();
                self.stats.confirms += 1;
                let m = AMQPClass::Basic(B::Ack(basic::Ack { delivery_tag: t, multiple: false }));
                self.enqueue_after(th, ch, vec![Self::m(ch, m)], SentKind::Confirm { ch, ack: true, tag: t, multiple: false });
            }
            return;
        }
        // style 1: with some probability confirm nothing now; otherwise confirm a random
        // subset: either a multiple up to some unconfirmed tag, or one single tag out of order
        let k = simrt::choose("confirm_now", 4);
        if k == 0 || cs.unconfirmed.is_empty() {
            return;
        }
        let ack = simrt::choose("confirm_ack", 4) != 0;
        let idx = simrt::choose("confirm_idx", cs.unconfirmed.len() as u32) as usize;
        let (tag, multiple) = if k == 3 {
            // "everything outstanding": delivery tag 0 with the multiple bit
            cs.unconfirmed.clear();
            (0, true)
        } else if k == 1 {
            let t = cs.unconfirmed.remove(idx);
            (t, false)
        } else {
            let t = cs.unconfirmed[idx];
            cs.unconfirmed.retain(|x| *x > t);
            (t, true)
        };
        self.stats.confirms += 1;
        let m = if ack {
            AMQPClass::Basic(B::Ack(basic::Ack { delivery_tag: tag, multiple }))
        } else {
            AMQPClass::Basic(B::Nack(basic::Nack { delivery_tag: tag, multiple, requeue: false }))
        };
        // no think time: confirms on one channel must stay in generation order
        self.enqueue_now(ch, vec![Self::m(ch, m)], SentKind::Confirm { ch, ack, tag, multiple });
    }

    /// confirm everything still unconfirmed on every channel (called by scenarios before the end)
    pub fn confirm_rest(&mut self) {
        let chs: Vec<u16> = self.chans.keys().cloned().collect();
        for ch in chs {
            let cs = self.chans.get_mut(&ch).unwrap();
            if !cs.confirm || cs.unconfirmed.is_empty() || !cs.open {
                continue;
            }
            let t = *cs.unconfirmed.iter().max().unwrap();
            cs.unconfirmed.clear();
            self.stats.confirms += 1;
            let m = AMQPClass::Basic(B::Ack(basic::Ack { delivery_tag: t, multiple: true }));
            self.enqueue_now(ch, vec![Self::m(ch, m)], SentKind::Confirm { ch, ack: true, tag: t, multiple: true });
        }
    }

    fn on_method(&mut self, ch: u16, class: AMQPClass) {
        if self.cfg.handshake.is_some() && self.phase != Phase::Open && self.phase != Phase::ClientClosing && self.phase != Phase::ServerClosing {
            match &class {
                AMQPClass::Connection(Cn::StartOk(s)) => {
                    self.start_ok = Some(s.clone());
                    self.hs_on(HsAfter::StartOk)
                }
                AMQPClass::Connection(Cn::TuneOk(t)) => {
                    self.negotiated = Some(t.clone());
                    self.hs_on(HsAfter::TuneOk)
                }
                AMQPClass::Connection(Cn::Open(o)) => {
                    self.open = Some(o.clone());
                    self.hs_on(HsAfter::Open)
                }
                AMQPClass::Connection(Cn::CloseOk(_)) => self.hs_on(HsAfter::CloseOk),
                _ => {}
            }
            return;
        }
        // a channel the server has closed (or that was never opened) is deaf until it is opened
        // again: requests the client sent before it learnt of the close are discarded
        if ch != 0 && !self.chans.get(&ch).map(|c| c.open).unwrap_or(false) {
            if !matches!(class, AMQPClass::Channel(Ch::Open(_)) | AMQPClass::Channel(Ch::Close(_)) | AMQPClass::Channel(Ch::CloseOk(_))) {
                self.note_frame_on_closed_channel(ch, &format!("{:?}", class));
                return;
            }
        }
        if let AMQPClass::Channel(Ch::CloseOk(_)) = &class {
            if let Some(cs) = self.chans.get_mut(&ch) {
                cs.awaiting_client_closeok = false;
            }
        }
        match class {
            AMQPClass::Connection(m) => match m {
                Cn::StartOk(s) => {
                    self.start_ok = Some(s);
                    self.phase = Phase::AwaitTuneOk;
                    let tune = connection::Tune { channel_max: self.cfg.tune.0, frame_max: self.cfg.tune.1, heartbeat: self.cfg.tune.2 };
                    let t = self.think();
                    self.enqueue_after(t, 0, vec![Self::m(0, AMQPClass::Connection(Cn::Tune(tune)))], SentKind::Handshake("tune"));
                }
                Cn::TuneOk(t) => {
                    self.negotiated = Some(t);
                    self.phase = Phase::AwaitOpen;
                }
                Cn::Open(o) => {
                    if self.cfg.silent_instead_of_open_ok {
                        self.silent = true;
                        return;
                    }
                    self.open = Some(o);
                    self.phase = Phase::Open;
                    let t = self.think() + self.cfg.open_ok_delay_ns;
                    let ok = connection::OpenOk { known_hosts: String::new() };
                    let mut okf = Self::m(0, AMQPClass::Connection(Cn::OpenOk(ok)));
                    if let Some((bytes, cut, gap)) = self.cfg.glue_after_open_ok.clone() {
                        let _ = gap;
                        let cut = cut.min(bytes.len());
                        okf.extend_from_slice(&bytes[..cut]);
                        if cut < bytes.len() {
                            // sent `gap` after the OpenOk write; nothing else goes out in between (flush)
                            self.glue_rest = Some((bytes[cut..].to_vec(), gap));
                        }
                    }
                    self.enqueue_after(t, 0, vec![okf], SentKind::Handshake("open-ok"));
                    self.after_open();
                }
                Cn::Close(_) => {
                    self.client_close_seen = true;
                    if self.phase == Phase::ServerClosing {
                        // simultaneous close: answer too
                    }
                    self.phase = Phase::ClientClosing;
                    let t = self.think() + self.cfg.closeok_delay_ns;
                    self.enqueue_after(t, 0, vec![Self::m(0, AMQPClass::Connection(Cn::CloseOk(connection::CloseOk {})))], SentKind::ConnectionCloseOk);
                    match self.cfg.closeok_mode {
                        CloseOkMode::SameSegment => {
                            // EOF follows the CloseOk bytes immediately: scheduled when flushed, see below
                            simrt::schedule_in(t, true, "broker.eof", Box::new(BrokerEv::EofNow));
                        }
                        CloseOkMode::Later => {
                            let d = t + 1_000 + simrt::choose("eof_later", 200) as u64 * 1000;
                            simrt::schedule_in(d, true, "broker.eof", Box::new(BrokerEv::EofNow));
                        }
                        CloseOkMode::Never => {}
                    }
                }
                Cn::CloseOk(_) => {
                    self.phase = Phase::Closed;
                    if self.cfg.eof_after_server_close {
                        self.send_eof(false);
                    }
                }
                _ => {}
            },
            AMQPClass::Channel(m) => match m {
                Ch::Open(_) => {
                    let cs = self.chans.entry(ch).or_default();
                    let epoch = cs.epoch + 1;
                    *cs = ChanState::default();
                    cs.epoch = epoch;
                    cs.open = true;
                    cs.was_open = true;
                    let id = format!("chan-{}", self.uniq());
                    self.reply(ch, AMQPClass::Channel(Ch::OpenOk(channel::OpenOk { channel_id: id })));
                }
                Ch::Close(_) => {
                    if let Some(cs) = self.chans.get_mut(&ch) {
                        cs.open = false;
                        for c in cs.consumers.iter_mut() {
                            c.1 = false;
                        }
                    }
                    // deliveries not yet on the wire for this channel are dropped
                    self.clear_queue(ch, false);
                    self.reply(ch, AMQPClass::Channel(Ch::CloseOk(channel::CloseOk {})));
                }
                Ch::CloseOk(_) => {}
                _ => {}
            },
            AMQPClass::Queue(m) => match m {
                Q::Declare(d) => {
                    if d.nowait {
                        self.no_reply(ch);
                    } else {
                        // a generated name is unique; when the declare carries an "x-mark" argument (unique per
                        // operation) it is derived from it, so that the wire oracle can predict it
                        let name = if d.queue.is_empty() {
                            match d.arguments.get("x-mark") {
                                Some(amq_protocol::types::AMQPValue::LongString(m)) => format!("amq.gen-{}", m),
                                _ => format!("amq.gen-{}", self.uniq()),
                            }
                        } else {
                            d.queue.clone()
                        };
                        let ok = queue::DeclareOk { queue: name, message_count: self.uniq() as u32, consumer_count: self.uniq() as u32 };
                        self.reply(ch, AMQPClass::Queue(Q::DeclareOk(ok)));
                    }
                }
                Q::Bind(b) => {
                    if !b.nowait {
                        self.reply(ch, AMQPClass::Queue(Q::BindOk(queue::BindOk {})));
                    }
                }
                Q::Unbind(_) => self.reply(ch, AMQPClass::Queue(Q::UnbindOk(queue::UnbindOk {}))),
                Q::Purge(p) => {
                    if !p.nowait {
                        let ok = queue::PurgeOk { message_count: self.uniq() as u32 };
                        self.reply(ch, AMQPClass::Queue(Q::PurgeOk(ok)));
                    }
                }
                Q::Delete(d) => {
                    if !d.nowait {
                        let ok = queue::DeleteOk { message_count: self.uniq() as u32 };
                        self.reply(ch, AMQPClass::Queue(Q::DeleteOk(ok)));
                    }
                }
                _ => {}
            },
            AMQPClass::Exchange(m) => match m {
                Ex::Declare(d) => {
                    if !d.nowait {
                        self.reply(ch, AMQPClass::Exchange(Ex::DeclareOk(exchange::DeclareOk {})));
                    }
                }
                Ex::Delete(d) => {
                    if !d.nowait {
                        self.reply(ch, AMQPClass::Exchange(Ex::DeleteOk(exchange::DeleteOk {})));
                    }
                }
                Ex::Bind(b) => {
                    if !b.nowait {
                        self.reply(ch, AMQPClass::Exchange(Ex::BindOk(exchange::BindOk {})));
                    }
                }
                Ex::Unbind(b) => {
                    if !b.nowait {
                        self.reply(ch, AMQPClass::Exchange(Ex::UnbindOk(exchange::UnbindOk {})));
                    }
                }
                _ => {}
            },
            AMQPClass::Confirm(m) => match m {
                Cf::Select(s) => {
                    let cs = self.chans.entry(ch).or_default();
                    cs.confirm = true;
                    if !s.nowait {
                        self.reply(ch, AMQPClass::Confirm(Cf::SelectOk(confirm::SelectOk {})));
                    }
                }
                _ => {}
            },
            AMQPClass::Basic(m) => match m {
                B::Qos(_) => self.reply(ch, AMQPClass::Basic(B::QosOk(basic::QosOk {}))),
                B::Recover(_) => self.reply(ch, AMQPClass::Basic(B::RecoverOk(basic::RecoverOk {}))),
                B::Consume(c) => {
                    let tag = if !c.consumer_tag.is_empty() {
                        c.consumer_tag.clone()
                    } else if self.cfg.fixed_consumer_tags {
                        format!("ctag-{}-{}", ch, self.chans.get(&ch).map(|c| c.consumers.len()).unwrap_or(0))
                    } else {
                        format!("ctag-{}-{}", ch, self.uniq())
                    };
                    let cs = self.chans.entry(ch).or_default();
                    cs.consumers.push((tag.clone(), true, false));
                    let answered = self.reply_b(ch, AMQPClass::Basic(B::ConsumeOk(basic::ConsumeOk { consumer_tag: tag.clone() })));
                    if !answered {
                        // the scripted reaction replaced the ConsumeOk: the consumer does not exist, nothing
                        // may be delivered to it (the slot stays so that "nth consumer" keeps its meaning)
                        if let Some(c) = self.chans.get_mut(&ch).and_then(|cs| cs.consumers.last_mut()) {
                            c.1 = false;
                        }
                        return;
                    }
                    // deliveries follow the ConsumeOk on the same channel queue
                    let n_override = self.cfg.deliveries_for_queue.iter().find(|(q, _)| *q == c.queue).map(|x| x.1);
                    let n = if let Some(k) = n_override { k } else { self.cfg.deliveries_min }
                        + if n_override.is_none() && self.cfg.deliveries_max > self.cfg.deliveries_min {
                            simrt::choose("n_deliveries", self.cfg.deliveries_max - self.cfg.deliveries_min + 1)
                        } else {
                            0
                        };
                    let open = self.chans.get(&ch).map(|c| c.open).unwrap_or(false);
                    if open {
                        for _ in 0..n {
                            let msg = self.gen_message(ch, "deliver");
                            let d = basic::Deliver {
                                consumer_tag: tag.clone(),
                                delivery_tag: msg.delivery_tag,
                                redelivered: msg.redelivered,
                                exchange: msg.exchange.clone(),
                                routing_key: msg.routing_key.clone(),
                            };
                            let frames = self.content_frames(ch, AMQPClass::Basic(B::Deliver(d)), &msg);
                            self.stats.deliveries += 1;
                            // all deliveries are enqueued behind the ConsumeOk with the same think time so
                            // that per-channel order is the generation order
                            self.enqueue_after_same(ch, frames, SentKind::Deliver { ch, tag: tag.clone(), msg });
                        }
                    }
                }
                B::Cancel(c) => {
                    let mut known = false;
                    if let Some(cs) = self.chans.get_mut(&ch) {
                        for x in cs.consumers.iter_mut() {
                            if x.0 == c.consumer_tag {
                                x.1 = false;
                                known = true;
                            }
                        }
                    }
                    let _ = known;
                    if !c.nowait {
                        self.reply(ch, AMQPClass::Basic(B::CancelOk(basic::CancelOk { consumer_tag: c.consumer_tag })));
                    }
                }
                B::Get(_) => {
                    let (req_no, answer) = self.begin_request(ch);
                    if !answer {
                        return;
                    }
                    if simrt::choose("get_empty", 1000) >= 1000 - self.cfg.get_empty_permille {
                        // GetEmpty is a plain reply
                        let t = self.think();
                        let f = Self::m(ch, AMQPClass::Basic(B::GetEmpty(basic::GetEmpty { cluster_id: String::new() })));
                        self.stats.replies += 1;
                        self.enqueue_after(t, ch, vec![f], SentKind::GetEmpty { ch, req_no });
                    } else {
                        let msg = self.gen_message(ch, "get");
                        let mc = self.uniq() as u32;
                        let ok = basic::GetOk {
                            delivery_tag: msg.delivery_tag,
                            redelivered: msg.redelivered,
                            exchange: msg.exchange.clone(),
                            routing_key: msg.routing_key.clone(),
                            message_count: mc,
                        };
                        let frames = self.content_frames(ch, AMQPClass::Basic(B::GetOk(ok)), &msg);
                        let t = self.think();
                        self.stats.replies += 1;
                        self.enqueue_after(t, ch, frames, SentKind::GetOk { ch, req_no, msg, message_count: mc });
                    }
                }
                B::Publish(p) => {
                    let cs = self.chans.entry(ch).or_default();
                    let seq = cs.publishes;
                    self.publishes.push(PublishRec {
                        ch,
                        seq_on_channel: seq,
                        method: p,
                        header: None,
                        body_frames: Vec::new(),
                        body: Vec::new(),
                        complete: false,
                        stamp: simrt::stamp(),
                    });
                    let idx = self.publishes.len() - 1;
                    self.chans.entry(ch).or_default().pending_pub = Some(idx);
                    for sidx in 0..self.cfg.script.len() {
                        if self.script_fired[sidx] {
                            continue;
                        }
                        if let Trigger::OnPublishMethod { ch: c, nth: n } = self.cfg.script[sidx].0.clone() {
                            if c == ch && n == seq {
                                self.fire_script(sidx);
                            }
                        }
                    }
                }
                B::CancelOk(_) | B::Ack(_) | B::Nack(_) | B::Reject(_) | B::RecoverAsync(_) => {}
                _ => {}
            },
            _ => {}
        }
    }

    /// enqueue behind whatever was last scheduled for this channel: uses a think
    /// time of "same as the previous enqueue" by scheduling with zero extra delay
    /// after the previous one.  Implemented by tracking the per-channel horizon.
    fn enqueue_after_same(&mut self, ch: u16, frames: Vec<Vec<u8>>, what: SentKind) {
        // horizon: time of the latest scheduled enqueue on this channel
        let d = self.horizon_delay(ch);
        self.enqueue_after(d, ch, frames, what);
    }

    fn horizon_delay(&mut self, _ch: u16) -> u64 {
        // think() already scheduled the ConsumeOk at now+t; use max think so order holds:
        // events at equal time keep FIFO order by sequence number.
        self.cfg.think_max_ns.max(self.cfg.think_min_ns)
    }
}
