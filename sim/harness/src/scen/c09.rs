//! C09 — a server-initiated channel close affects that channel only.
use super::*;
use crate::broker::SentKind;
use crate::client::*;
use crate::lifecycle::*;
use crate::oracles::{decode_c2s, inbound_oracle_skip, rpc_oracle_skip};
use crate::session::OwnerOp;
use crate::wire;
use amq_protocol::frame::AMQPFrame;
use amq_protocol::protocol::channel::AMQPMethod as Ch;
use amq_protocol::protocol::AMQPClass;

pub struct C09;

fn touches_channel(op: &Op) -> bool {
    !matches!(op, Op::Yield | Op::Gate(_) | Op::ReadOld | Op::ReadReturns | Op::ReadConfirms | Op::DropReturns | Op::DropConfirms | Op::ForgetConsumer { .. } | Op::Drain { .. } | Op::DropConsumer { .. } | Op::ForeignAck { .. })
}

/// scheduler stamp at which the byte at `offset` of the client->server stream was written
fn stamp_of_offset(net: &crate::stream::NetState, offset: usize) -> Option<u64> {
    net.writes.iter().find(|w| w.offset <= offset && offset < w.offset + w.len).map(|w| w.stamp)
}

impl Scenario for C09 {
    fn property(&self) -> &'static str {
        "C09"
    }
    fn rule(&self) -> String {
        "Seeded lifecycle sessions with 1-3 worker threads x 1-2 channels; the broker closes a chosen channel n with a random code/text at a random time, instead of the reply to its k-th request (call in flight), or right after it, possibly in the middle of a content (header/body frames outstanding) and with consumers attached, while the other channels keep issuing RPCs, publishes and consuming. Oracle: on n the first failing call fails with ServerClosedChannel{n,code,text}, every later call fails, every call invoked after the client's CloseOk(n) was written fails, consumers on n end with that error, exactly one CloseOk(n) is written; on every other channel all calls succeed and the C04/C03 oracles hold; open_channel(Some(n)) issued after the CloseOk succeeds. Non-trivial = the close hit a channel with a call in flight or a consumer attached while >=1 other channel was active; distinct = schedule trace hash.".to_string()
    }
    fn plan(&self, thorough: bool, seed: u64) -> Vec<CaseSpec> {
        plan_random("C09", "server-channel-close", seed, if thorough { 200_000 } else { 10_000 })
    }
    fn run_case(&self, spec: &CaseSpec, text: bool) -> CaseReport {
        let mut cs = spec.stream();
        let lc = LifeCfg {
            consumer_ends: vec![ConsumerEnd::ClientCancel, ConsumerEnd::Inherit, ConsumerEnd::Inherit, ConsumerEnd::Drop, ConsumerEnd::DropWhole, ConsumerEnd::ServerCancel { nowait: false }],
            channel_ends: vec![ChannelEnd::Normal, ChannelEnd::ServerClose { code: 0, text: String::new() }],
            conn_ends: vec![ConnEnd::Normal],
            max_threads: 3,
            busy_ops: 12,
            write_faults: false,
            read_faults: true,
            heartbeat: 0,
            explicit_drop_after_server_cancel: true,
            empty_publish_before_server_cancel: false,
        };
        let mut life = gen_life(&mut cs, &lc);
        let mut rep_directed = 0u64;
        // the owner tries to re-open closed ids late in the session
        let closed_ids: Vec<u16> = life.chans.iter().filter(|c| matches!(c.end, ChannelEnd::ServerClose { .. })).map(|c| c.id).collect();
        if !closed_ids.is_empty() {
            life.gen.plan.owner_ops.push(OwnerOp::JoinWorkers);
            for id in &closed_ids {
                life.gen.plan.owner_ops.push(OwnerOp::OpenChannel { id: Some(*id), keep: cs.choose("keep_reopened", 2) == 1 });
            }
        }
        // directed: on a channel the server is going to close and that has a server-cancelled consumer, the
        // cancel arrives a few microseconds before the close (the client's CancelOk and CloseOk compete)
        if cs.choose("c09_cancel_then_close", 3) == 0 {
            let mut extra: Vec<(u16, u32, bool, u64)> = Vec::new();
            for (trig, act) in life.gen.broker.script.iter() {
                if let (crate::broker::Trigger::AtTime(t), crate::broker::Action::CloseChannel { ch, .. }) = (trig, act) {
                    for c in life.consumers.iter().filter(|c| c.ch == *ch) {
                        if let ConsumerEnd::ServerCancel { nowait } = c.end {
                            let before = 1_000 * (1 + cs.choose("c09_cancel_lead_us", 40) as u64);
                            extra.push((*ch, c.nth_on_channel, nowait, t.saturating_sub(before)));
                        }
                    }
                }
            }
            // ... or both are the server's reaction to the method frame of a (long) publish on that channel, whose
            // content frames are still being handed to the I/O thread when they arrive
            if !extra.is_empty() && cs.choose("c09_during_publish", 2) == 0 {
                let (ch, nth, nowait, _) = extra[0];
                let t_idx = life.chans.iter().find(|c| c.id == ch).map(|c| (c.thread, c.slot));
                if let Some((thread, slot)) = t_idx {
                    let plan = &mut life.gen.plan.threads[thread - 1];
                    // a long publish right after the consumers of that thread exist
                    let pos = plan.ops.iter().position(|(_, o)| !matches!(o, Op::Consume { .. })).unwrap_or(plan.ops.len());
                    let prior_publishes = plan.ops[..pos].iter().filter(|(s2, o)| *s2 == slot && matches!(o, Op::Publish { .. })).count() as u32;
                    plan.ops.insert(pos, (slot, Op::Publish { exchange: "x.long".into(), rk: "rk.long".into(), mandatory: false, immediate: false, props: 0, body_len: 20 * (life.gen.frame_max - 8), via_exchange: false }));
                    let close = life.gen.broker.script.iter().find_map(|(_, a)| if let crate::broker::Action::CloseChannel { ch: c, code, text } = a { if *c == ch { Some((*code, text.clone())) } else { None } } else { None });
                    if let Some((code, text)) = close {
                        life.gen.broker.script.retain(|(_, a)| !matches!(a, crate::broker::Action::CloseChannel { ch: c, .. } if *c == ch) && !matches!(a, crate::broker::Action::CancelConsumer { ch: c, nth_consumer: k, .. } if *c == ch && *k == nth));
                        life.gen.broker.script.push((crate::broker::Trigger::OnPublishMethod { ch, nth: prior_publishes }, crate::broker::Action::CancelThenCloseChannel { ch, nth_consumer: nth, nowait, code, text }));
                        extra.clear();
                        rep_directed += 1000;
                    }
                }
            }
            for (ch, nth, nowait, at) in extra {
                life.gen.broker.script.retain(|(_, a)| !matches!(a, crate::broker::Action::CancelConsumer { ch: c, nth_consumer: k, .. } if *c == ch && *k == nth));
                life.gen.broker.script.push((crate::broker::Trigger::AtTime(at), crate::broker::Action::CancelConsumer { ch, nth_consumer: nth, nowait }));
                rep_directed += 1;
            }
        }
        let (res, world) = run_generated(&life.gen, cs, text, |_| {});
        let mut rep = CaseReport::default();
        fill_common(&mut rep, &res, &world);
        rep.count("c09.cancel_just_before_close_directed", rep_directed);
        rep.sample = serde_json::json!({"plan": plan_summary(&life.gen), "channels": life.chans.iter().map(|c| format!("{:?}", c)).collect::<Vec<_>>(), "consumers": life.consumers.iter().map(|c| format!("{:?}", c)).collect::<Vec<_>>(), "script": life.gen.broker.script.iter().map(|s| format!("{:?}", s)).collect::<Vec<_>>()});
        for p in &res.run.panics {
            rep.violate("panic", format!("{}@{}", p.thread, p.location), format!("{} panicked: {}", p.thread, p.message));
        }
        if let Some((sig, detail)) = hang_sig(&res.run.outcome) {
            rep.violate("hang", sig, format!("server closed a channel and somebody waits forever: {}", detail));
            return rep;
        }
        if rep.inconclusive.is_some() {
            return rep;
        }
        let n = world.net.lock().unwrap();
        // which channels did the server actually close, and with what
        let mut closed: Vec<(u16, u16, String, u64)> = Vec::new();
        for s in &world.broker.sent {
            if let SentKind::ChannelClose { ch, code, text } = &s.kind {
                closed.push((*ch, *code, text.clone(), s.stamp));
            }
        }
        let per = match decode_c2s(&n.c2s) {
            Ok(p) => p,
            Err(e) => {
                rep.inconclusive = Some(format!("stream not decodable: {}", e));
                return rep;
            }
        };
        let mut nontrivial = false;
        // Known pattern (see known_findings.json): the client's own Channel.Close crossed the server's
        // Close on n, the broker answers it with CloseOk (as AMQP requires), and the client re-opened n
        // before that CloseOk arrived: the CloseOk is taken for the new incarnation.
        let mut crossing: Vec<u16> = Vec::new();
        for (i, s) in world.broker.sent.iter().enumerate() {
            if let SentKind::ChannelClose { ch, .. } = &s.kind {
                // the next reply on that id is a CloseOk (not the OpenOk of a new incarnation)
                let answered_crossing = world.broker.sent[i + 1..]
                    .iter()
                    .find_map(|x| match &x.kind {
                        SentKind::Reply { ch: c, method, .. } if c == ch => Some(matches!(method, AMQPClass::Channel(Ch::CloseOk(_)))),
                        _ => None,
                    })
                    .unwrap_or(false);
                let reopened = res.hist.conn.iter().any(|c| matches!(c, ConnRec::OpenChannel { requested: Some(id), for_thread: 0, .. } if id == ch));
                if answered_crossing && reopened {
                    crossing.push(*ch);
                }
            }
        }
        if !crossing.is_empty() {
            rep.count("c09.crossing_close_then_reuse", 1);
            // the recorded finding has one shape: the crossed CloseOk is taken for the reply to the new
            // incarnation's Channel.Open, so that open_channel(Some(n)) fails with FrameUnexpected (and the
            // OpenOk that follows kills the connection).  Any other failure on such a run is something else.
            let known_shape = res.hist.conn.iter().any(|c| matches!(c, ConnRec::OpenChannel { requested: Some(id), for_thread: 0, result: Err(e), .. } if crossing.contains(id) && e == "FrameUnexpected"));
            // (a re-opened incarnation may itself be closed by the server's late scripted close: an open or
            // close that fails with ServerClosedChannel is the server's doing, not a disturbance)
            let failed = res.hist.conn.iter().any(|c| matches!(c, ConnRec::OpenChannel { result: Err(e), for_thread: 0, .. } if !e.starts_with("ServerClosedChannel(")) || matches!(c, ConnRec::Close { result: Err(_), .. }));
            if known_shape {
                rep.violate("id-reuse", "reuse-after-crossing-close", format!("channel {:?}: client Close crossed the server's Close, the id was re-opened before the server's CloseOk for the client's Close arrived; that CloseOk was applied to the new incarnation (open_channel -> FrameUnexpected); connection history: {:?}", crossing, res.hist.conn.iter().filter(|c| matches!(c, ConnRec::OpenChannel { result: Err(_), .. } | ConnRec::Close { .. })).collect::<Vec<_>>()));
            } else if failed {
                rep.violate("crossing-close", "connection-disturbed", format!("channel {:?}: the client's own Channel.Close crossed the server's Close (the server answers it with CloseOk, as AMQP requires) and the connection did not survive: {:?}", crossing, res.hist.conn.iter().filter(|c| matches!(c, ConnRec::OpenChannel { result: Err(_), .. } | ConnRec::Close { .. })).collect::<Vec<_>>()));
            }
            // the rest of the oracle cannot be evaluated soundly on such a run
            return rep;
        }
        for (ch, code, text, _sent_stamp) in &closed {
            let want_err = format!("ServerClosedChannel({},{},{})", ch, code, text);
            // (a) CloseOk on the wire
            let frames = per.get(ch).cloned().unwrap_or_default();
            let oks: Vec<usize> = frames.iter().filter(|(_, _, f)| matches!(f, AMQPFrame::Method(_, AMQPClass::Channel(Ch::CloseOk(_))))).map(|(off, len, _)| off + len - 1).collect();
            let n_closes = closed.iter().filter(|c| c.0 == *ch).count();
            if n_closes > 1 {
                // the server closed this id more than once (it was re-opened in between): the simple
                // per-id bookkeeping below does not apply
                rep.count("c09.id_closed_twice", 1);
                continue;
            }
            if oks.len() != 1 {
                rep.violate("close-ok", if oks.is_empty() { "missing" } else { "repeated" }, format!("server closed channel {}: client wrote {} Channel.CloseOk frames on it", ch, oks.len()));
                return rep;
            }
            let s_ok = stamp_of_offset(&n, oks[0]).unwrap_or(u64::MAX);
            // (b) calls on the closed channel
            let ops: Vec<&OpRec> = res.hist.ops.iter().filter(|o| o.ch_id == *ch && o.result != OpResult::Skipped && touches_channel(&o.op)).collect();
            let mut first_err: Option<&OpRec> = None;
            // calls whose error the client program cannot see (a consumer drop cancels, acks during a
            // drain): one of them may have been "the next call" that received ServerClosedChannel
            let has_consumers = res.hist.ops.iter().any(|o| o.ch_id == *ch && matches!(o.op, Op::Consume { .. }));
            let mut swallowed = false;
            // an ack that failed inside a drain is recorded by the harness (first error of that drain): it takes
            // its place in the channel's call sequence; a consumer drop's error is truly invisible
            let mut drain_errs: Vec<OpRec> = Vec::new();
            for o in res.hist.ops.iter().filter(|o| o.ch_id == *ch) {
                match &o.op {
                    Op::DropConsumer { .. } => swallowed |= o.ret > *_sent_stamp,
                    Op::Drain { acks, slot, .. } if !acks.is_empty() => {
                        let key = format!("ack error during drain t{} slot{}: ", o.thread, slot);
                        if let Some(e) = res.hist.notes.iter().find_map(|n| n.strip_prefix(&key)) {
                            let mut x = (*o).clone();
                            x.result = OpResult::Err(e.to_string());
                            drain_errs.push(x);
                            rep.count("c09.ack_errors_in_drain_sequenced", 1);
                        }
                    }
                    _ => {}
                }
            }
            let mut ops = ops;
            for x in &drain_errs {
                ops.push(x);
            }
            ops.sort_by_key(|o| (o.invoke, o.idx));
            for o in &ops {
                let is_err = matches!(o.result, OpResult::Err(_));
                match first_err {
                    None => {
                        if is_err {
                            first_err = Some(o);
                            let relaxed = swallowed || (o.idx >= 1_000_000 && has_consumers);
                            if relaxed {
                                rep.count("c09.first_error_unconstrained", 1);
                            }
                            let got = match &o.result {
                                OpResult::Err(e) => OpResult::Err(e.trim_start_matches("ack-after-get:").to_string()),
                                r => r.clone(),
                            };
                            if !relaxed && got != OpResult::Err(want_err.clone()) {
                                rep.violate("closed-channel-error", "first-error-kind", format!("channel {} closed by server with ({},{}): first failing call {} returned {:?}", ch, code, text, crate::expect::short_op(&o.op), o.result));
                                return rep;
                            }
                            if o.invoke < *_sent_stamp {
                                rep.count("c09.call_in_flight_at_close", 1);
                                nontrivial = true;
                            }
                        } else if o.invoke > s_ok {
                            rep.violate("closed-channel-error", "call-succeeded-after-close", format!("channel {}: call {} invoked at step {} after CloseOk was written (step {}) returned {:?}", ch, crate::expect::short_op(&o.op), o.invoke, s_ok, o.result));
                            return rep;
                        }
                    }
                    Some(_) => {
                        if !is_err {
                            rep.violate("closed-channel-error", "later-call-succeeded", format!("channel {}: after the ServerClosedChannel error, call {} returned {:?}", ch, crate::expect::short_op(&o.op), o.result));
                            return rep;
                        }
                    }
                }
            }
            rep.count("c09.closed_channels_checked", 1);
            // (c) consumers on n
            for o in &res.hist.ops {
                if o.ch_id != *ch {
                    continue;
                }
                if let OpResult::Drained { terminals, disconnected, .. } = &o.result {
                    if terminals.iter().any(|t| matches!(t, Terminal::ServerClosedChannel(_))) {
                        nontrivial = true;
                        rep.count("c09.consumers_on_closed_channel", 1);
                        if terminals != &vec![Terminal::ServerClosedChannel(want_err.clone())] || !*disconnected {
                            rep.violate("closed-channel-consumer", "terminal", format!("channel {}: consumer got {:?} (disconnected {}), expected exactly [{}]", ch, terminals, disconnected, want_err));
                            return rep;
                        }
                    }
                }
            }
            // (e) id reuse
            for c in &res.hist.conn {
                if let ConnRec::OpenChannel { requested: Some(id), invoke, result, for_thread: 0, .. } = c {
                    if id == ch && *invoke > s_ok {
                        rep.count("c09.reopen_attempts", 1);
                        if result != &Ok(*ch) {
                            rep.violate("id-reuse", "unavailable", format!("open_channel(Some({})) after the server closed it and CloseOk was written returned {:?}", ch, result));
                            return rep;
                        }
                    }
                }
            }
        }
        // (c') once the client has answered the server's close with CloseOk nothing more goes out on that
        // channel id until it is opened again: a real broker answers such a frame with 504 CHANNEL_ERROR and
        // the connection (which must keep working) is gone
        if let Some(v) = world.broker.client_violations.iter().find(|v| v.starts_with("server-closed:")) {
            rep.violate("frame-after-close-ok", "on-closed-channel", format!("{}", v));
            return rep;
        }
        // (d) every other channel is unaffected
        let skip: Vec<u16> = closed.iter().map(|c| c.0).collect();
        for o in &res.hist.ops {
            if skip.contains(&o.ch_id) || o.result == OpResult::Skipped {
                continue;
            }
            if let OpResult::Err(e) = &o.result {
                rep.violate("other-channel-disturbed", "error", format!("channel {} (not closed by the server): {} failed with {}", o.ch_id, crate::expect::short_op(&o.op), e));
                return rep;
            }
        }
        for c in &res.hist.conn {
            if let ConnRec::Close { result: Err(e), .. } = c {
                rep.violate("connection-disturbed", "close-error", format!("connection close returned {} although only channels were closed", e));
                return rep;
            }
        }
        rpc_oracle_skip(&mut rep, &res.hist, &world.broker, &skip);
        if rep.violations.is_empty() {
            // inbound oracle only looks at consumers drained after a cancel on surviving channels
            inbound_oracle_skip(&mut rep, &res.hist, &world.broker, &skip);
        }
        let others_active = res.hist.ops.iter().any(|o| !skip.contains(&o.ch_id) && touches_channel(&o.op));
        rep.nontrivial = nontrivial && others_active && !closed.is_empty();
        rep.distinct = rep.trace_hash;
        let _ = wire::PROTOCOL_HEADER;
        rep
    }
}
