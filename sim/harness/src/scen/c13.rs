//! C13 — confirms, returns and blocked notices are forwarded verbatim, in order.
use super::*;
use crate::broker::{Action, Broker, SentKind, Trigger};
use crate::client::*;
use crate::gen::*;
use crate::oracles::sync_calls;
use crate::session::*;
use std::collections::BTreeMap;

pub struct C13;

#[derive(Debug, Clone)]
struct Epoch<T> {
    reg_ret: u64,
    /// invoke stamp of the op that replaced / dropped it (u64::MAX = lived to the end)
    end_invoke: u64,
    items: Vec<T>,
    replaced: bool,
    dropped: bool,
    old_disconnected: Option<bool>,
    final_read_idx: usize,
    thread: usize,
}

/// Sound model of a racy registry: each listener's items form a contiguous,
/// verbatim, in-order slice of the channel's event stream, slices in order of
/// registration and disjoint.
fn check_slices<T: PartialEq + std::fmt::Debug>(rep: &mut CaseReport, what: &str, ch: u16, stream: &[T], epochs: &[Epoch<T>]) -> bool {
    let mut p = 0usize;
    for (k, e) in epochs.iter().enumerate() {
        if e.items.is_empty() {
            continue;
        }
        // earliest start at or after p where the whole slice matches (events may repeat)
        let n = e.items.len();
        let full = (p..stream.len().saturating_sub(n) + 1).find(|s| stream.len() >= s + n && stream[*s..*s + n] == e.items[..]);
        let s = match full.or_else(|| stream[p..].iter().position(|x| *x == e.items[0]).map(|s| p + s)) {
            Some(s) => s,
            None => {
                let earlier = stream[..p].iter().any(|x| *x == e.items[0]);
                rep.violate(
                    &format!("{}-forwarding", what),
                    if earlier { "duplicated-or-reordered" } else { "invented-or-altered" },
                    format!("channel {} listener #{}: first item {:?} is {} the server's stream after position {} (stream: {:?})", ch, k, e.items[0], if earlier { "only before" } else { "not in" }, p, stream.iter().take(12).collect::<Vec<_>>()),
                );
                return false;
            }
        };
        for (j, it) in e.items.iter().enumerate() {
            if stream.get(s + j) != Some(it) {
                rep.violate(
                    &format!("{}-forwarding", what),
                    "not-contiguous-verbatim",
                    format!("channel {} listener #{}: item #{} is {:?} but the server's stream has {:?} there (listener got {:?}; stream {:?})", ch, k, j, it, stream.get(s + j), e.items.iter().take(12).collect::<Vec<_>>(), stream.iter().skip(s).take(12).collect::<Vec<_>>()),
                );
                return false;
            }
        }
        p = s + e.items.len();
    }
    true
}

type Cf = (bool, u64, bool);

fn confirm_oracle(rep: &mut CaseReport, hist: &History, broker: &Broker) {
    let calls = sync_calls(hist);
    // reply positions in broker.sent per channel, in order
    let mut reply_pos: BTreeMap<u16, Vec<usize>> = BTreeMap::new();
    for (i, s) in broker.sent.iter().enumerate() {
        match &s.kind {
            SentKind::Reply { ch, .. } | SentKind::GetOk { ch, .. } | SentKind::GetEmpty { ch, .. } => reply_pos.entry(*ch).or_default().push(i),
            _ => {}
        }
    }
    let mut threads: BTreeMap<usize, Vec<&OpRec>> = BTreeMap::new();
    for o in &hist.ops {
        threads.entry(o.thread).or_default().push(o);
    }
    for (t, ops) in &threads {
        let mut chans: Vec<u16> = ops.iter().map(|o| o.ch_id).collect();
        chans.sort();
        chans.dedup();
        for ch in chans {
            if ch == 0 {
                continue;
            }
            // event streams
            let cstream: Vec<(usize, Cf)> = broker.sent.iter().enumerate().filter_map(|(i, s)| if let SentKind::Confirm { ch: c, ack, tag, multiple } = &s.kind { if *c == ch { Some((i, (*ack, *tag, *multiple))) } else { None } } else { None }).collect();
            let rstream: Vec<(usize, String)> = broker.sent.iter().enumerate().filter_map(|(i, s)| if let SentKind::Return { ch: c, msg, code, text } = &s.kind { if *c == ch { Some((i, format!("{}|{}|{}|{}", code, text, msg.routing_key, crate::wire::fnv(&msg.body)))) } else { None } } else { None }).collect();
            let mut cep: Vec<Epoch<Cf>> = Vec::new();
            let mut rep_: Vec<Epoch<String>> = Vec::new();
            let mut ccur: Option<usize> = None;
            let mut rcur: Option<usize> = None;
            let mut cold: Vec<usize> = Vec::new();
            let mut rold: Vec<usize> = Vec::new();
            // publishes on this channel after confirm mode: tag -> invoke stamp ; by rk for returns
            let mut pub_invoke_by_tag: Vec<u64> = Vec::new();
            let mut confirm_on = false;
            let mut pub_invoke_by_rk: BTreeMap<String, u64> = BTreeMap::new();
            for o in ops.iter().filter(|o| o.ch_id == ch) {
                match (&o.op, &o.result) {
                    (Op::ConfirmSelect { .. }, OpResult::Unit) => confirm_on = true,
                    (Op::Publish { rk, .. }, OpResult::Unit) => {
                        if confirm_on {
                            pub_invoke_by_tag.push(o.invoke);
                        }
                        pub_invoke_by_rk.insert(rk.clone(), o.invoke);
                    }
                    (Op::ListenConfirms, OpResult::Unit) => {
                        if let Some(c) = ccur {
                            cep[c].end_invoke = o.invoke;
                            cep[c].replaced = true;
                            cold.push(c);
                        }
                        cep.push(Epoch { reg_ret: o.ret, end_invoke: u64::MAX, items: vec![], replaced: false, dropped: false, old_disconnected: None, final_read_idx: 0, thread: *t });
                        ccur = Some(cep.len() - 1);
                    }
                    (Op::ListenReturns, OpResult::Unit) => {
                        if let Some(c) = rcur {
                            rep_[c].end_invoke = o.invoke;
                            rep_[c].replaced = true;
                            rold.push(c);
                        }
                        rep_.push(Epoch { reg_ret: o.ret, end_invoke: u64::MAX, items: vec![], replaced: false, dropped: false, old_disconnected: None, final_read_idx: 0, thread: *t });
                        rcur = Some(rep_.len() - 1);
                    }
                    (Op::DropConfirms, _) => {
                        if let Some(c) = ccur.take() {
                            cep[c].end_invoke = o.invoke;
                            cep[c].dropped = true;
                        }
                    }
                    (Op::DropReturns, _) => {
                        if let Some(c) = rcur.take() {
                            rep_[c].end_invoke = o.invoke;
                            rep_[c].dropped = true;
                        }
                    }
                    (Op::ReadConfirms, OpResult::Confirms(v, _)) => {
                        if let Some(c) = ccur {
                            cep[c].items.extend(v.iter().cloned());
                            cep[c].final_read_idx = o.idx;
                        }
                    }
                    (Op::ReadReturns, OpResult::Returns(v, _)) => {
                        if let Some(c) = rcur {
                            rep_[c].items.extend(v.iter().map(|r| format!("{}|{}|{}|{}", r.reply_code, r.reply_text, r.routing_key, crate::wire::fnv(&r.body))));
                            rep_[c].final_read_idx = o.idx;
                        }
                    }
                    (Op::ReadOld, OpResult::OldListeners { confirms, returns }) => {
                        for (j, (items, disc)) in confirms.iter().enumerate() {
                            if let Some(c) = cold.get(j) {
                                cep[*c].items.extend(items.iter().cloned());
                                cep[*c].old_disconnected = Some(*disc);
                            }
                        }
                        for (j, (items, disc)) in returns.iter().enumerate() {
                            if let Some(c) = rold.get(j) {
                                rep_[*c].items.extend(items.iter().map(|r| format!("{}|{}|{}|{}", r.reply_code, r.reply_text, r.routing_key, crate::wire::fnv(&r.body))));
                                rep_[*c].old_disconnected = Some(*disc);
                            }
                        }
                    }
                    (_, OpResult::Err(e)) => {
                        rep.violate("disturbed", "call-failed", format!("channel {}: {} failed with {} although only listeners were registered / replaced / dropped", ch, crate::expect::short_op(&o.op), e));
                        return;
                    }
                    _ => {}
                }
            }
            // 1. slices
            let cs_only: Vec<Cf> = cstream.iter().map(|x| x.1).collect();
            let rs_only: Vec<String> = rstream.iter().map(|x| x.1.clone()).collect();
            if !check_slices(rep, "confirm", ch, &cs_only, &cep) {
                return;
            }
            if !check_slices(rep, "return", ch, &rs_only, &rep_) {
                return;
            }
            rep.count("c13.confirm_events", cs_only.len() as u64);
            rep.count("c13.return_events", rs_only.len() as u64);
            rep.count("c13.confirm_listeners", cep.len() as u64);
            rep.count("c13.return_listeners", rep_.len() as u64);
            rep.count("c13.listeners_replaced", cep.iter().chain(std::iter::empty()).filter(|e| e.replaced).count() as u64 + rep_.iter().filter(|e| e.replaced).count() as u64);
            rep.count("c13.listeners_dropped", cep.iter().filter(|e| e.dropped).count() as u64 + rep_.iter().filter(|e| e.dropped).count() as u64);
            // 2. must-have: listener registered before the publish was issued, and a round trip whose
            // reply followed the event completed before the listener was replaced / dropped / last read
            let my_calls = calls.get(&ch);
            let rp = reply_pos.get(&ch).cloned().unwrap_or_default();
            let barrier_after = |sent_idx: usize, before_invoke: u64, before_idx: Option<usize>| -> bool {
                if let Some(cs) = my_calls {
                    for (i, c) in cs.iter().enumerate() {
                        if let (Some(pos), Some(r)) = (rp.get(i), c.rec) {
                            let early_enough = c.ret < before_invoke && before_idx.map(|b| r.idx < b).unwrap_or(true);
                            if *pos > sent_idx && early_enough && !matches!(r.result, OpResult::Err(_)) {
                                return true;
                            }
                        }
                    }
                }
                false
            };
            for (sent_idx, ev) in &cstream {
                let tag = ev.1 as usize;
                let cause = match pub_invoke_by_tag.get(tag.wrapping_sub(1)) {
                    Some(x) => *x,
                    None => continue,
                };
                for (k, e) in cep.iter().enumerate() {
                    if e.reg_ret <= cause {
                        // a dropped listener loses what it had not read: only what precedes its last read counts
                        let end = if e.dropped { u64::MAX } else { e.end_invoke };
                        let idx_limit = if end == u64::MAX { Some(e.final_read_idx) } else { None };
                        if (end != u64::MAX || e.final_read_idx > 0) && barrier_after(*sent_idx, end, idx_limit) {
                            rep.count("c13.confirm_must_have_checked", 1);
                        }
                        if (end != u64::MAX || e.final_read_idx > 0) && barrier_after(*sent_idx, end, idx_limit) && !e.items.contains(ev) {
                            // only the listener that was current when the event was processed must have it:
                            // a later listener registered before the publish cannot exist (publish is after reg)
                            let later_has = cep.iter().skip(k + 1).any(|x| x.reg_ret <= cause);
                            if !later_has {
                                rep.violate("confirm-missed", "registered-before-publish", format!("channel {}: confirm {:?} for a publish issued after listener #{} was registered never reached it, although a later round trip completed while it was still the listener (it got {:?})", ch, ev, k, e.items.iter().take(10).collect::<Vec<_>>()));
                                return;
                            }
                        }
                    }
                }
            }
            for (sent_idx, ev) in &rstream {
                let rk = ev.split('|').nth(2).unwrap_or("");
                let cause = match pub_invoke_by_rk.get(rk) {
                    Some(x) => *x,
                    None => continue,
                };
                for (k, e) in rep_.iter().enumerate() {
                    if e.reg_ret <= cause {
                        let end = if e.dropped { u64::MAX } else { e.end_invoke };
                        let idx_limit = if end == u64::MAX { Some(e.final_read_idx) } else { None };
                        let later_has = rep_.iter().skip(k + 1).any(|x| x.reg_ret <= cause);
                        if !later_has && (end != u64::MAX || e.final_read_idx > 0) && barrier_after(*sent_idx, end, idx_limit) {
                            rep.count("c13.return_must_have_checked", 1);
                        }
                        if !later_has && (end != u64::MAX || e.final_read_idx > 0) && barrier_after(*sent_idx, end, idx_limit) && !e.items.contains(ev) {
                            rep.violate("return-missed", "registered-before-publish", format!("channel {}: returned message {} for a publish issued after listener #{} was registered never reached it", ch, ev, k));
                            return;
                        }
                    }
                }
            }
            // 3. a replaced listener's queue is disconnected once a later round trip has completed
            for (k, e) in cep.iter().enumerate() {
                if e.replaced && e.old_disconnected.is_some() {
                    rep.count("c13.old_listener_checked", 1);
                }
                if e.replaced && e.old_disconnected == Some(false) {
                    rep.violate("old-listener", "confirm-still-connected", format!("channel {}: confirm listener #{} was replaced, a round trip later its queue is still connected", ch, k));
                    return;
                }
            }
            for (k, e) in rep_.iter().enumerate() {
                if e.replaced && e.old_disconnected == Some(false) {
                    rep.violate("old-listener", "return-still-connected", format!("channel {}: return listener #{} was replaced, a round trip later its queue is still connected", ch, k));
                    return;
                }
            }
            let _ = (&cep.first().map(|e| e.thread),);
        }
    }
}

fn blocked_oracle(rep: &mut CaseReport, hist: &History, broker: &Broker) {
    let stream: Vec<(usize, Option<String>)> = broker
        .sent
        .iter()
        .enumerate()
        .filter_map(|(i, s)| match &s.kind {
            SentKind::Blocked(r) => Some((i, Some(r.clone()))),
            SentKind::Unblocked => Some((i, None)),
            _ => None,
        })
        .collect();
    // epochs from the connection history (in order)
    let mut epochs: Vec<Epoch<Option<String>>> = Vec::new();
    let mut last_open_ret_before_read: Vec<(usize, u64)> = Vec::new();
    let mut cur: Option<usize> = None;
    // registration only *queues* the listener for the I/O thread; it is certainly installed once a later
    // round trip of the owner (open_channel) has completed: (epoch, ret stamp of that round trip)
    let mut installed_by: Vec<Option<u64>> = Vec::new();
    let mut last_roundtrip: Option<(u64, u64)> = None; // (invoke, ret) of the latest owner open_channel
    for c in &hist.conn {
        match c {
            ConnRec::ListenBlocked { ret, invoke, result: Ok(()) } => {
                if let Some(k) = cur {
                    epochs[k].end_invoke = *invoke;
                    epochs[k].replaced = true;
                }
                epochs.push(Epoch { reg_ret: *ret, end_invoke: u64::MAX, items: vec![], replaced: false, dropped: false, old_disconnected: None, final_read_idx: 0, thread: 0 });
                installed_by.push(None);
                cur = Some(epochs.len() - 1);
            }
            ConnRec::OpenChannel { for_thread: 0, invoke, ret, result: Ok(_), .. } => {
                last_roundtrip = Some((*invoke, *ret));
                if let Some(k) = cur {
                    if installed_by[k].is_none() {
                        installed_by[k] = Some(*ret);
                    }
                }
            }
            ConnRec::ReadBlocked { notes, .. } => {
                if let Some(k) = cur {
                    epochs[k].items.extend(notes.iter().cloned());
                    if let Some((inv, _)) = last_roundtrip {
                        last_open_ret_before_read.push((k, inv));
                    }
                }
            }
            _ => {}
        }
    }
    let s_only: Vec<Option<String>> = stream.iter().map(|x| x.1.clone()).collect();
    if !check_slices(rep, "blocked", 0, &s_only, &epochs) {
        return;
    }
    rep.count("c13.blocked_events", s_only.len() as u64);
    // must-have: notices sent before the reply of a round trip the owner completed before reading, to a
    // listener registered before they were sent
    for (k, inv) in last_open_ret_before_read {
        // find that round trip's reply in broker.sent: the OpenOk whose request was invoked at `inv`:
        // approximate by stamp: replies sent after the invoke stamp
        let e = &epochs[k];
        // the notices this listener must hold form a contiguous range of the stream
        let mut must: Vec<Option<String>> = Vec::new();
        for (sent_idx, note) in &stream {
            let s = &broker.sent[*sent_idx];
            // installed before the notice entered the wire, and a later OpenOk reply exists that was sent after
            // the notice and belongs to a round trip started after the notice was sent
            if installed_by[k].map(|r| r < s.stamp).unwrap_or(false) {
                let later_reply = broker.sent[*sent_idx + 1..].iter().any(|x| matches!(&x.kind, SentKind::Reply { method: amq_protocol::protocol::AMQPClass::Channel(amq_protocol::protocol::channel::AMQPMethod::OpenOk(_)), .. }) && x.stamp > s.stamp);
                let roundtrip_started_after = inv > s.stamp;
                if later_reply && roundtrip_started_after && e.end_invoke == u64::MAX {
                    rep.count("c13.blocked_must_have_checked", 1);
                    must.push(note.clone());
                }
            }
        }
        if !must.is_empty() {
            let held = e.items.len() >= must.len() && e.items.windows(must.len()).any(|w| w == &must[..]);
            if !held {
                rep.violate("blocked-missed", "registered-before-notice", format!("blocked notices {:?} were sent after the listener was installed and before a later open_channel round trip, yet the listener has {:?}", must, e.items));
                return;
            }
        }
    }
}

impl Scenario for C13 {
    fn property(&self) -> &'static str {
        "C13"
    }
    fn rule(&self) -> String {
        "Seeded sessions: 1-2 worker threads x 1-2 channels in confirm mode publishing (mandatory or not) while registering, replacing, dropping and reading confirm and return listeners at random points; the broker confirms with singles / multiples / nacks in random batches and returns about half of the mandatory publishes; the connection owner registers (and re-registers) a blocked listener while the broker emits Blocked/Unblocked notices at random times. Oracle (sound model of a racy registry): every listener's items form a contiguous, verbatim, in-order slice of its channel's event stream, slices of successive listeners are disjoint and in registration order; a listener whose registration returned before the publish was issued, and that was still current when a later round trip on the channel completed, holds the confirm / return that publish caused (for blocked notices, which no client request causes: a listener installed — registration followed by a completed open_channel round trip — before the notice was sent holds it); a replaced listener's queue is disconnected one round trip later; with no listener or a dropped one every call still succeeds. Family 'early-close': listeners registered before the first publish and left alone; the owner closes the connection while confirmations and returns are outstanding, the server (slow with its CloseOk) sends them ahead of it, the listeners are read after close() has returned and must hold exactly what the server sent on their channel. Non-trivial = at least one listener was replaced or dropped while events were flowing and >= 3 events were forwarded; distinct = schedule trace hash.".to_string()
    }
    fn plan(&self, thorough: bool, seed: u64) -> Vec<CaseSpec> {
        let mut v = plan_random("C13", "listeners", seed, if thorough { 300_000 } else { 15_000 });
        v.extend(plan_random("C13", "early-close", seed, if thorough { 40_000 } else { 3_000 }));
        v
    }
    fn run_case(&self, spec: &CaseSpec, text: bool) -> CaseReport {
        if spec.family == "early-close" {
            return run_early_close(spec, text);
        }
        let mut cs = spec.stream();
        let mut g = GenCfg::default();
        g.consume = false;
        g.get = false;
        g.acks = false;
        g.rpc = false;
        g.write_faults = false;
        g.body_factor = 1;
        g.frame_max_choices = vec![(0, 4096), (0, 131072)];
        let (cfm, sfm) = *pick(&mut cs, "frame_max_pair", &g.frame_max_choices);
        let frame_max = negotiated_frame_max(cfm, sfm);
        let sched = gen_sched(&mut cs);
        let net = gen_net(&mut cs, &g);
        let mut broker = gen_broker(&mut cs, &g, sfm, 600);
        broker.confirm_style = cs.choose("confirm_style", 3).min(1);
        broker.return_permille = 550;
        broker.body_max = 300;
        let n_threads = 1 + cs.choose("n_threads", 2) as usize;
        let mut threads = Vec::new();
        for t in 0..n_threads {
            let n_chans = 1 + cs.choose("n_chans", 2) as usize;
            let mut ops: Vec<(usize, Op)> = Vec::new();
            for s in 0..n_chans {
                if cs.choose("confirm_mode", 5) != 0 {
                    ops.push((s, Op::ConfirmSelect { nowait: false }));
                }
            }
            let n_ops = 4 + cs.choose("n_ops", 36) as usize;
            for i in 0..n_ops {
                let s = cs.choose("slot", n_chans as u32) as usize;
                let op = match cs.choose("kind", 14) {
                    0 | 1 => Op::ListenConfirms,
                    2 | 3 => Op::ListenReturns,
                    4 => Op::DropConfirms,
                    5 => Op::DropReturns,
                    6 => Op::ReadConfirms,
                    7 => Op::ReadReturns,
                    8 => Op::Qos { size: 0, count: i as u16, global: false },
                    _ => Op::Publish { exchange: "".into(), rk: format!("t{}k{}", t + 1, i), mandatory: cs.choose("mandatory", 3) != 0, immediate: false, props: cs.choose("props", 3), body_len: cs.choose("len", 200) as usize, via_exchange: false },
                };
                ops.push((s, op));
            }
            for s in 0..n_chans {
                ops.push((s, Op::Qos { size: 0, count: 9999, global: false }));
                ops.push((s, Op::ReadConfirms));
                ops.push((s, Op::ReadReturns));
                ops.push((s, Op::ReadOld));
            }
            threads.push(ThreadPlan { chan_ids: vec![None; n_chans], ops, close_channels: true });
        }
        // blocked notices and the owner's listener
        let mut owner_ops = vec![];
        let n_notes = cs.choose("n_notes", 6);
        let mut t = 200_000u64;
        for i in 0..n_notes {
            t += 50_000 + cs.choose("note_gap_us", 3000) as u64 * 1000;
            let a = if cs.choose("note_kind", 2) == 0 { Action::Blocked(format!("alarm-{}", i)) } else { Action::Unblocked };
            broker.script.push((Trigger::AtTime(t), a));
        }
        if cs.choose("blocked_listener", 4) != 0 {
            owner_ops.push(OwnerOp::ListenBlocked);
            if cs.choose("roundtrip_after_listen", 3) != 0 {
                owner_ops.push(OwnerOp::OpenChannel { id: None, keep: false });
            }
            if cs.choose("relisten", 3) == 0 {
                owner_ops.push(OwnerOp::SleepNs(1_000 * cs.choose("relisten_after_us", 4000) as u64));
                owner_ops.push(OwnerOp::ReadBlocked);
                owner_ops.push(OwnerOp::ListenBlocked);
                if cs.choose("roundtrip_after_relisten", 3) != 0 {
                    owner_ops.push(OwnerOp::OpenChannel { id: None, keep: false });
                }
            }
            owner_ops.push(OwnerOp::JoinWorkers);
            owner_ops.push(OwnerOp::SleepNs(t + 2_000_000));
            owner_ops.push(OwnerOp::OpenChannel { id: None, keep: false });
            owner_ops.push(OwnerOp::ReadBlocked);
        }
        let mut opts = ConnOpts::default();
        opts.frame_max = cfm;
        let plan = SessionPlan { opts, tuning: Tuning { bound: *pick(&mut cs, "bound", &[16usize, 1, 2, 0]), high: 16 << 20, low: 0 }, threads, owner_ops, close: CloseKind::Close, join_before_close: true };
        let gen = Generated { plan, net, broker, sched, frame_max };
        let (res, world) = run_generated(&gen, cs, text, |_| {});
        let mut rep = CaseReport::default();
        fill_common(&mut rep, &res, &world);
        rep.sample = plan_summary(&gen);
        for p in &res.run.panics {
            rep.violate("panic", format!("{}@{}", p.thread, p.location), format!("{} panicked: {}", p.thread, p.message));
        }
        if let Some((sig, detail)) = hang_sig(&res.run.outcome) {
            rep.violate("hang", sig, format!("listener traffic must not block anybody: {}", detail));
            return rep;
        }
        if rep.inconclusive.is_some() || !rep.violations.is_empty() {
            return rep;
        }
        for c in &res.hist.conn {
            if let ConnRec::Close { result: Err(e), .. } = c {
                rep.violate("disturbed", "connection", format!("connection close returned {}", e));
                return rep;
            }
        }
        confirm_oracle(&mut rep, &res.hist, &world.broker);
        if rep.violations.is_empty() {
            blocked_oracle(&mut rep, &res.hist, &world.broker);
        }
        let ev = rep.counters.get("c13.confirm_events").copied().unwrap_or(0) + rep.counters.get("c13.return_events").copied().unwrap_or(0);
        let churn = rep.counters.get("c13.listeners_replaced").copied().unwrap_or(0) + rep.counters.get("c13.listeners_dropped").copied().unwrap_or(0);
        rep.nontrivial = ev >= 3 && churn >= 1;
        rep.distinct = rep.trace_hash;
        rep
    }
}


/// Family 'early-close': listeners are registered before the first publish and never touched again; the owner
/// closes the connection while confirmations and returns are still outstanding, the server sends them ahead of
/// its CloseOk, and the listeners are read after close() has returned.  Everything the server sent on a channel
/// must be there, verbatim and in order: the client's own Close in flight is no reason to drop inbound events.
fn run_early_close(spec: &CaseSpec, text: bool) -> CaseReport {
    let mut cs = spec.stream();
    let mut g = GenCfg::default();
    g.consume = false;
    g.get = false;
    g.acks = false;
    g.rpc = false;
    g.write_faults = false;
    g.body_factor = 1;
    g.frame_max_choices = vec![(0, 4096), (0, 131072)];
    let (cfm, sfm) = *pick(&mut cs, "frame_max_pair", &g.frame_max_choices);
    let frame_max = negotiated_frame_max(cfm, sfm);
    let sched = gen_sched(&mut cs);
    let net = gen_net(&mut cs, &g);
    let mut broker = gen_broker(&mut cs, &g, sfm, 600);
    broker.confirm_style = cs.choose("confirm_style", 3).min(1);
    broker.return_permille = 550;
    broker.body_max = 300;
    // the server takes its time over confirmations and longer still over the CloseOk
    broker.think_min_ns = 0;
    broker.think_max_ns = *pick(&mut cs, "think", &[200_000u64, 1_000_000, 20_000]);
    broker.closeok_delay_ns = 3_000_000 + cs.choose("closeok_delay_us", 4000) as u64 * 1000;
    let n_threads = 1 + cs.choose("n_threads", 2) as usize;
    let mut threads = Vec::new();
    for t in 0..n_threads {
        let mut ops: Vec<(usize, Op)> = vec![(0, Op::ListenConfirms), (0, Op::ListenReturns), (0, Op::ConfirmSelect { nowait: false })];
        let n_pub = 1 + cs.choose("n_publishes", 12) as usize;
        for i in 0..n_pub {
            ops.push((0, Op::Publish { exchange: "".into(), rk: format!("t{}k{}", t + 1, i), mandatory: cs.choose("mandatory", 3) != 0, immediate: false, props: cs.choose("props", 3), body_len: cs.choose("len", 200) as usize, via_exchange: false }));
        }
        // wait until the connection is long closed, then read what the listeners hold
        ops.push((0, Op::Gate(7)));
        ops.push((0, Op::ReadConfirms));
        ops.push((0, Op::ReadReturns));
        threads.push(ThreadPlan { chan_ids: vec![None], ops, close_channels: false });
    }
    // the owner gives the publishers a moment (or not) and closes
    let owner_ops = vec![OwnerOp::SleepNs(*pick(&mut cs, "close_after", &[300_000u64, 100_000, 1_000_000, 3_000_000]))];
    let mut opts = ConnOpts::default();
    opts.frame_max = cfm;
    let plan = SessionPlan { opts, tuning: Tuning { bound: *pick(&mut cs, "bound", &[16usize, 1, 2, 0]), high: 16 << 20, low: 0 }, threads, owner_ops, close: CloseKind::Close, join_before_close: false };
    let gen = Generated { plan, net, broker, sched, frame_max };
    let (res, world) = run_generated(&gen, cs, text, |_| {
        crate::world::call_in(2_000_000_000, |_| amiquip_simrt::gate_open(7));
    });
    let mut rep = CaseReport::default();
    fill_common(&mut rep, &res, &world);
    rep.sample = plan_summary(&gen);
    for p in &res.run.panics {
        rep.violate("panic", format!("{}@{}", p.thread, p.location), format!("{} panicked: {}", p.thread, p.message));
    }
    if let Some((sig, detail)) = hang_sig(&res.run.outcome) {
        rep.violate("hang", sig, format!("close with confirmations outstanding: {}", detail));
        return rep;
    }
    if rep.inconclusive.is_some() {
        return rep;
    }
    let close = res.hist.conn.iter().find_map(|c| if let ConnRec::Close { result, ret, .. } = c { Some((result.clone(), *ret)) } else { None });
    match &close {
        Some((Ok(()), _)) => {}
        other => {
            rep.violate("disturbed", "close-failed", format!("plain client close with confirmations outstanding returned {:?}", other.as_ref().map(|x| &x.0)));
            return rep;
        }
    }
    let mut events = 0u64;
    let mut after_close_frame = 0u64;
    // position of the client's Connection.Close in the broker's view: events the broker sent after it had received it
    let close_seen = world.broker.received.iter().find(|r| matches!(&r.frame, Some(amq_protocol::frame::AMQPFrame::Method(0, amq_protocol::protocol::AMQPClass::Connection(amq_protocol::protocol::connection::AMQPMethod::Close(_)))))).map(|r| r.stamp);
    let mut threads: BTreeMap<usize, Vec<&OpRec>> = BTreeMap::new();
    for o in &res.hist.ops {
        threads.entry(o.thread).or_default().push(o);
    }
    for (_t, ops) in &threads {
        let ch = match ops.iter().map(|o| o.ch_id).find(|c| *c != 0) {
            Some(c) => c,
            None => continue,
        };
        // a publisher that had not finished when the connection closed: its later calls fail, fine; but the
        // listeners were registered first
        let registered = ops.iter().filter(|o| matches!((&o.op, &o.result), (Op::ListenConfirms, OpResult::Unit) | (Op::ListenReturns, OpResult::Unit))).count() == 2;
        if !registered {
            continue;
        }
        // only what was completely on the wire ahead of the CloseOk counts: the client stops reading there (the
        // simulated broker may flush the tail of a content it had begun behind its CloseOk)
        let cut = world.broker.sent.iter().find(|s| matches!(s.kind, SentKind::ConnectionCloseOk)).map(|s| s.s2c_start).unwrap_or(usize::MAX);
        let sent_c: Vec<Cf> = world.broker.sent.iter().filter(|s| s.s2c_end <= cut).filter_map(|s| if let SentKind::Confirm { ch: c, ack, tag, multiple } = &s.kind { if *c == ch { Some((*ack, *tag, *multiple)) } else { None } } else { None }).collect();
        let sent_r: Vec<String> = world.broker.sent.iter().filter(|s| s.s2c_end <= cut).filter_map(|s| if let SentKind::Return { ch: c, msg, code, text } = &s.kind { if *c == ch { Some(format!("{}|{}|{}|{}", code, text, msg.routing_key, crate::wire::fnv(&msg.body))) } else { None } } else { None }).collect();
        if let Some(cs_) = close_seen {
            after_close_frame += world.broker.sent.iter().filter(|s| s.stamp > cs_ && matches!(&s.kind, SentKind::Confirm { ch: c, .. } | SentKind::Return { ch: c, .. } if *c == ch)).count() as u64;
        }
        let got_c: Option<(Vec<Cf>, bool)> = ops.iter().find_map(|o| if let (Op::ReadConfirms, OpResult::Confirms(v, d)) = (&o.op, &o.result) { Some((v.clone(), *d)) } else { None });
        let got_r: Option<(Vec<String>, bool)> = ops.iter().find_map(|o| if let (Op::ReadReturns, OpResult::Returns(v, d)) = (&o.op, &o.result) { Some((v.iter().map(|r| format!("{}|{}|{}|{}", r.reply_code, r.reply_text, r.routing_key, crate::wire::fnv(&r.body))).collect(), *d)) } else { None });
        if let Some((got, disc)) = got_c {
            events += sent_c.len() as u64;
            if got != sent_c {
                rep.violate("confirm-missed", "close-in-progress", format!("channel {}: the confirm listener was registered before the first publish and read after Connection::close had returned: the server sent {:?} (all ahead of its CloseOk), the listener holds {:?}", ch, sent_c, got));
                return rep;
            }
            if !disc {
                rep.violate("confirm-forwarding", "still-connected-after-close", format!("channel {}: confirm listener not disconnected after the connection was closed", ch));
                return rep;
            }
        }
        if let Some((got, _)) = got_r {
            events += sent_r.len() as u64;
            if got != sent_r {
                rep.violate("return-missed", "close-in-progress", format!("channel {}: the return listener was registered before the first publish and read after Connection::close had returned: the server sent {} returns {:?} (all ahead of its CloseOk), the listener holds {:?}", ch, sent_r.len(), sent_r, got));
                return rep;
            }
        }
    }
    rep.count("c13.early_close_runs", 1);
    rep.count("c13.early_close_events_compared", events);
    rep.count("c13.early_close_events_sent_after_client_close", after_close_frame);
    rep.nontrivial = after_close_frame > 0;
    rep.distinct = rep.trace_hash;
    rep
}
