//! C14 — ConfirmSmoother emits every tag once, in order, with its true outcome.
//! Single actor, no clock, no I/O: the schedule dimension of the simulator is
//! vacuous here; what is sampled is the history a broker may produce.
use super::*;
use amiquip::{Confirm, ConfirmPayload, ConfirmSmoother};
use std::collections::BTreeMap;

pub struct C14;

fn mk(ack: bool, tag: u64, multiple: bool) -> Confirm {
    let p = ConfirmPayload { delivery_tag: tag, multiple };
    if ack {
        Confirm::Ack(p)
    } else {
        Confirm::Nack(p)
    }
}

fn un(c: &Confirm) -> (bool, u64, bool) {
    match c {
        Confirm::Ack(p) => (true, p.delivery_tag, p.multiple),
        Confirm::Nack(p) => (false, p.delivery_tag, p.multiple),
    }
}

/// Sequential reference model.
struct Model {
    expected: u64,
    confirmed: BTreeMap<u64, bool>,
}

impl Model {
    fn process(&mut self, ack: bool, tag: u64, multiple: bool) -> Vec<(bool, u64)> {
        if multiple {
            let mut u = self.expected;
            while u <= tag {
                self.confirmed.entry(u).or_insert(ack);
                u += 1;
            }
        } else if tag >= self.expected {
            self.confirmed.entry(tag).or_insert(ack);
        }
        let mut out = Vec::new();
        while let Some(a) = self.confirmed.remove(&self.expected) {
            out.push((a, self.expected));
            self.expected += 1;
        }
        out
    }
}

impl Scenario for C14 {
    fn property(&self) -> &'static str {
        "C14"
    }
    fn rule(&self) -> String {
        "Direct drive of ConfirmSmoother (no threads, no clock: the simulator's scheduler is not involved, only its seeded choice stream and minimiser). Family 'valid': N<=12 tags from a random start tag (incl. near u64::MAX/2), each confirmed exactly once by a single or by a multiple covering what is then unconfirmed, any arrival order, any ack/nack mix, each returned iterator consumed for k items then dropped. Oracle: sequential reference model compared per process() call (emitted as soon as the prefix is complete, never before; outcome of the first covering confirmation). Family 'valid-long': the same with up to 80 outstanding tags and, in one history out of eight, a start tag such that the window ends within 3 of u64::MAX. Family 'arbitrary': duplicate / stale / overlapping confirmations; safety half only (strictly consecutive, no duplicates, never a tag nobody confirmed). Non-trivial = history has >=1 out-of-order arrival and >=1 multiple; distinct = hash of the confirmation sequence.".to_string()
    }
    fn assumptions(&self) -> Vec<String> {
        vec!["public API only (ConfirmSmoother::process); the end-to-end path listener -> smoother is exercised by C13's scenario, not here".into()]
    }
    fn plan(&self, thorough: bool, seed: u64) -> Vec<CaseSpec> {
        let v = self.plan_view(thorough, seed);
        (0..v.len()).filter_map(|i| v.get(i)).collect()
    }
    fn plan_view(&self, thorough: bool, seed: u64) -> PlanView {
        // computed on demand (27 million cases in the thorough tier)
        PlanView::Blocks {
            verif_seed: seed,
            blocks: vec![
                RandomBlock { prop: "C14", family: "valid", n: if thorough { 20_000_000 } else { 1_000_000 } },
                RandomBlock { prop: "C14", family: "arbitrary", n: if thorough { 6_000_000 } else { 300_000 } },
                // longer windows: up to 80 outstanding tags, a start tag right below the 64-bit boundary included
                RandomBlock { prop: "C14", family: "valid-long", n: if thorough { 1_000_000 } else { 50_000 } },
            ],
        }
    }
    fn real_vs_stub(&self) -> serde_json::Value {
        serde_json::json!({"real": ["amiquip::ConfirmSmoother (src/confirm.rs)"], "simulated": ["the raw confirmation history a broker may produce"], "not_run": ["scheduler, clock, socket: not applicable to a single-actor pure data structure"]})
    }
    fn run_case(&self, spec: &CaseSpec, _text: bool) -> CaseReport {
        let mut cs = spec.stream();
        let mut rep = CaseReport::default();
        let start = match cs.choose("start_kind", 4) {
            0 => 1,
            1 => 1 + cs.choose("start_small", 1000) as u64,
            2 => (u64::MAX / 2) - cs.choose("start_big", 100) as u64,
            _ => 1 + cs.choose("start_any", 1 << 30) as u64,
        };
        let long = spec.family == "valid-long";
        let n = 1 + cs.choose("n_tags", if long { 80 } else { 12 }) as u64;
        let start = if long && cs.choose("start_near_max", 8) == 0 { u64::MAX - n - cs.choose("start_gap", 3) as u64 } else { start };
        let mut history: Vec<(bool, u64, bool, usize)> = Vec::new(); // ack, tag, multiple, consume_k
        if spec.family == "valid" || spec.family == "valid-long" {
            let mut unconfirmed: Vec<u64> = (start..start + n).collect();
            while !unconfirmed.is_empty() {
                let i = cs.choose("which", unconfirmed.len() as u32) as usize;
                let tag = unconfirmed[i];
                let multiple = cs.choose("multiple", 3) == 0;
                let ack = cs.choose("ack", 3) != 0;
                if multiple {
                    unconfirmed.retain(|t| *t > tag);
                } else {
                    unconfirmed.remove(i);
                }
                let k = if cs.choose("drop_early", 3) == 0 { cs.choose("consume_k", 4) as usize } else { usize::MAX };
                history.push((ack, tag, multiple, k));
            }
        } else {
            let m = 1 + cs.choose("n_confirms", 24);
            for _ in 0..m {
                // tags around the window, including stale ones below start
                let off = cs.choose("tag_off", (n + 4) as u32) as u64;
                let tag = (start + off).saturating_sub(2).max(1);
                let k = if cs.choose("drop_early", 3) == 0 { cs.choose("consume_k", 4) as usize } else { usize::MAX };
                history.push((cs.choose("ack", 2) == 1, tag, cs.choose("multiple", 2) == 1, k));
            }
        }
        // a channel's first delivery tag is 1: all three ways of building a smoother for it must agree
        let mut sm = match if start == 1 { cs.choose("constructor", 3) } else { 0 } {
            1 => {
                rep.count("c14.built_with_new", 1);
                ConfirmSmoother::new()
            }
            2 => {
                rep.count("c14.built_with_default", 1);
                ConfirmSmoother::default()
            }
            _ => ConfirmSmoother::with_expected_delivery_tag(start),
        };
        let mut model = Model { expected: start, confirmed: BTreeMap::new() };
        let mut all_out: Vec<(bool, u64)> = Vec::new();
        let mut covered_upto = 0u64; // highest tag covered by a multiple
        let mut singles: std::collections::BTreeSet<u64> = Default::default();
        let mut ooo = false;
        let mut has_multiple = false;
        let mut next_expected = start;
        for (step, (ack, tag, multiple, k)) in history.iter().enumerate() {
            if *multiple {
                has_multiple = true;
                covered_upto = covered_upto.max(*tag);
            } else {
                singles.insert(*tag);
                if *tag > next_expected {
                    ooo = true;
                }
            }
            let want = model.process(*ack, *tag, *multiple);
            next_expected = model.expected;
            let mut got: Vec<(bool, u64, bool)> = Vec::new();
            {
                let mut it = sm.process(mk(*ack, *tag, *multiple));
                let mut taken = 0;
                while taken < *k {
                    match it.next() {
                        Some(c) => got.push(un(&c)),
                        None => break,
                    }
                    taken += 1;
                    if got.len() > 512 {
                        break;
                    }
                }
            }
            if got.iter().any(|g| g.2) {
                rep.violate("multiple-flag", "multiple", format!("step {} {:?}: output {:?} carries multiple=true", step, (ack, tag, multiple), got));
                break;
            }
            let got2: Vec<(bool, u64)> = got.iter().map(|g| (g.0, g.1)).collect();
            if spec.family == "valid" || spec.family == "valid-long" {
                // observed items must be a prefix of the model's output of this call (all of it if fully consumed)
                let full = *k == usize::MAX;
                let ok = if full { got2 == want } else { got2.len() <= want.len() && got2[..] == want[..got2.len()] && (got2.len() == (*k).min(want.len())) };
                if !ok {
                    let common = got2.len().min(want.len());
                    let tags_agree = got2[..common].iter().map(|x| x.1).eq(want[..common].iter().map(|x| x.1));
                    let kind = if tags_agree && got2[..common] != want[..common] {
                        "outcome"
                    } else if !tags_agree {
                        "wrong-tag"
                    } else if got2.len() < want.len() {
                        "late-or-missing"
                    } else {
                        "early-or-extra"
                    };
                    rep.violate("per-call-output", kind, format!("start {} history {:?}: at step {} smoother yielded {:?}, reference model {:?}", start, &history[..=step].iter().map(|h| (h.0, h.1, h.2)).collect::<Vec<_>>(), step, got2, want));
                    break;
                }
                all_out.extend(want);
            } else {
                // safety half
                for (a, t) in &got2 {
                    let expect_next = all_out.last().map(|l: &(bool, u64)| l.1 + 1).unwrap_or(start);
                    if *t != expect_next && *k == usize::MAX {
                        rep.violate("safety-consecutive", "gap-or-duplicate", format!("start {} history {:?}: output tag {} after {:?}", start, &history[..=step].iter().map(|h| (h.0, h.1, h.2)).collect::<Vec<_>>(), t, all_out.last()));
                    }
                    if !(singles.contains(t) || *t <= covered_upto) {
                        rep.violate("safety-unconfirmed", "invented", format!("start {} history {:?}: output tag {} which no confirmation covered", start, &history[..=step].iter().map(|h| (h.0, h.1, h.2)).collect::<Vec<_>>(), t));
                    }
                    all_out.push((*a, *t));
                }
                if *k != usize::MAX {
                    // items dropped unseen: resynchronise the consecutive check with the model
                    all_out = all_out.into_iter().filter(|_| true).collect();
                    if let Some(last) = want.last() {
                        if all_out.last().map(|l| l.1 < last.1).unwrap_or(true) {
                            all_out.push(*last);
                        }
                    }
                }
                if !rep.violations.is_empty() {
                    break;
                }
            }
        }
        if (spec.family == "valid" || spec.family == "valid-long") && rep.violations.is_empty() {
            // everything confirmed: the concatenation is start..start+n
            let tags: Vec<u64> = all_out.iter().map(|x| x.1).collect();
            let want: Vec<u64> = (start..start + n).collect();
            if tags != want {
                rep.violate("total-output", "incomplete", format!("start {} n {}: emitted {:?}", start, n, tags));
            }
        }
        rep.count("c14.confirmations", history.len() as u64);
        rep.count("c14.histories_with_early_drop", history.iter().any(|h| h.3 != usize::MAX) as u64);
        rep.count("c14.histories_with_multiple", has_multiple as u64);
        rep.count("c14.histories_out_of_order", ooo as u64);
        rep.nontrivial = ooo && has_multiple;
        let mut h = start;
        for x in &history {
            h = (h ^ (x.1 << 3 | (x.0 as u64) << 1 | x.2 as u64)).wrapping_mul(0x100000001b3);
        }
        rep.distinct = h;
        rep.trace_hash = h;
        rep.choices = cs.record.clone();
        rep.sample = serde_json::json!({"family": spec.family, "start": start, "n": n, "history": history.iter().map(|h| format!("{}{}{}", if h.0 {"ack"} else {"nack"}, h.1, if h.2 {"*"} else {""})).collect::<Vec<_>>()});
        rep
    }
}
