//! C18 — backpressure bounds buffering, loses nothing, and always resumes.
use super::*;
use crate::broker::BrokerCfg;
use crate::client::*;
use crate::expect::{publish_frames, ExpFrame};
use crate::gen::{pick, Generated};
use crate::scen::c01::wire_oracle;
use crate::session::*;
use crate::stream::NetCfg;
use crate::wire;
use crate::world::call_in;
use amiquip_simrt::SchedCfg;

pub struct C18;

fn frames_len(frames: &[ExpFrame], ch: u16) -> usize {
    let mut b = Vec::new();
    for f in frames {
        match f {
            ExpFrame::Method(c) => wire::method(&mut b, ch, c),
            ExpFrame::Header(class, size, props) => wire::header(&mut b, ch, *class, *size, props),
            ExpFrame::Body(x) => wire::body(&mut b, ch, x),
        }
    }
    b.len()
}

impl Scenario for C18 {
    fn property(&self) -> &'static str {
        "C18"
    }
    fn rule(&self) -> String {
        "Seeded sessions: 1-4 publisher threads (20-150 messages each, bodies up to 2 frames) plus the owner opening a channel and publishing on it while throttled; in a fifth of the runs the server closes the only publishing channel while throttled and a channel is opened after the transport has drained; in a fifth the owner publishes into a final stall and closes the connection at once (backlog and Connection.Close wait in the sealed output buffer, the transport resumes in trickles); tuning drawn from mem_channel_bound in {0,1,2,16}, high-water in {1000, 8000, 64000}, low-water in {0, high/2}; 1-3 write stalls of 5-60 ms of simulated time during which the transport grants no budget, short writes in between. Oracle (a), only under I/O-atomic schedules (the I/O thread is not preempted inside one poll batch, because the code checks the high-water mark between batches): at every millisecond of every stall, bytes accepted from completed publish calls minus bytes written <= high_water + 2*N*(bound+1)*frame_max. Oracle (b), under all schedules: after the last stall every publisher finishes (else the hang detector names the lost wake-up) and the wire carries every accepted message exactly once, per channel in order (C01's wire oracle). Non-trivial = the throttle had to engage: total volume > 2x the bound of (a) and the stall outlasted the publishers' progress; distinct = schedule trace hash.".to_string()
    }
    fn assumptions(&self) -> Vec<String> {
        vec!["the numeric bound is asserted only under I/O-atomic schedules; under free schedules publishers can refill a channel while the I/O thread drains it, which the code does not bound (DESIGN.md §7 C18)".into()]
    }
    fn plan(&self, thorough: bool, seed: u64) -> Vec<CaseSpec> {
        plan_random("C18", "stall", seed, if thorough { 80_000 } else { 5_000 })
    }
    fn run_case(&self, spec: &CaseSpec, text: bool) -> CaseReport {
        let mut cs = spec.stream();
        let frame_max = 4096usize;
        // variant: the server closes the only publishing channel while the connection is throttled, the
        // transport then drains with no channel open, and a channel opened afterwards must still work
        let close_only_channel = cs.choose("close_only_channel", 5) == 0;
        let n_pub = if close_only_channel { 1 } else { 1 + cs.choose("n_publishers", 4) as usize };
        let bound = *pick(&mut cs, "bound", &[1usize, 2, 16, 0]);
        let high = *pick(&mut cs, "high", &[1000usize, 8000, 64000]);
        let low = if cs.choose("low_half", 2) == 1 { high / 2 } else { 0 };
        let io_atomic = cs.choose("io_atomic", 2) == 0;
        let mut threads = Vec::new();
        let mut total_volume = 0usize;
        for t in 0..n_pub {
            let m = 20 + cs.choose("n_msgs", 131) as usize;
            let mut ops = Vec::new();
            for i in 0..m {
                let len = match cs.choose("len_kind", 4) {
                    0 => cs.choose("len_small", 100) as usize,
                    1 => frame_max - 8,
                    2 => 2 * (frame_max - 8),
                    _ => cs.choose("len_any", 2 * frame_max as u32) as usize,
                };
                total_volume += len + 60;
                ops.push((0usize, Op::Publish { exchange: "".into(), rk: format!("t{}m{}", t + 1, i), mandatory: false, immediate: false, props: 0, body_len: len, via_exchange: false }));
            }
            threads.push(ThreadPlan { chan_ids: vec![None], ops, close_channels: true });
        }
        // stalls
        let n_stalls = 1 + cs.choose("n_stalls", 3) as u64;
        let mut stalls: Vec<(u64, u64)> = Vec::new();
        let mut t = 300_000 + cs.choose("first_stall_us", 3000) as u64 * 1000;
        for _ in 0..n_stalls {
            let d = 5_000_000 + cs.choose("stall_ms", 55) as u64 * 1_000_000;
            stalls.push((t, t + d));
            t += d + 200_000 + cs.choose("stall_gap_us", 5000) as u64 * 1000;
        }
        // the owner opens a channel while throttled and publishes on it
        let mut owner_ops = Vec::new();
        let mut close_behind_backlog = false;
        if close_only_channel {
            let last = stalls.last().unwrap().1;
            owner_ops.push(OwnerOp::SleepNs(last + 5_000_000));
            owner_ops.push(OwnerOp::OpenChannel { id: None, keep: true });
            owner_ops.push(OwnerOp::PublishKept { nth: 0, count: 3, len: 500 });
        } else if cs.choose("close_behind_backlog", 4) == 0 {
            // the owner publishes into a stalled transport and closes the connection at once: the backlog and the
            // Connection.Close sit in the (now sealed) output buffer while the peer is not reading; when it
            // resumes, in short writes, everything accepted must still arrive exactly once and the close complete
            close_behind_backlog = true;
            owner_ops.push(OwnerOp::OpenChannel { id: None, keep: true });
            owner_ops.push(OwnerOp::JoinWorkers);
            owner_ops.push(OwnerOp::SleepNs(stalls.last().unwrap().1 + 1_000_000));
            owner_ops.push(OwnerOp::StallFor(2_000_000 + cs.choose("final_stall_ms", 30) as u64 * 1_000_000));
            owner_ops.push(OwnerOp::PublishKept { nth: 0, count: 1 + cs.choose("owner_msgs", 8) as usize, len: *pick(&mut cs, "owner_len", &[100usize, 700, 3000]) });
        } else if cs.choose("owner_channel", 2) == 1 {
            owner_ops.push(OwnerOp::SleepNs(stalls[0].0 + 2_000_000));
            owner_ops.push(OwnerOp::OpenChannel { id: None, keep: true });
            owner_ops.push(OwnerOp::PublishKept { nth: 0, count: 5 + cs.choose("owner_msgs", 20) as usize, len: 3000 });
        }
        let plan = SessionPlan { opts: ConnOpts { frame_max: 4096, ..ConnOpts::default() }, tuning: Tuning { bound, high, low }, threads, owner_ops, close: CloseKind::Close, join_before_close: true };
        let mut broker = BrokerCfg::default();
        broker.tune = (2047, 4096, 0);
        broker.s2c_lat_min_ns = 1_000;
        broker.s2c_lat_max_ns = 1_000;
        let mut net = NetCfg::default();
        net.c2s_lat_min_ns = 1_000;
        net.c2s_lat_max_ns = 1_000;
        net.wr_short_permille = *pick(&mut cs, "wr_short", &[0u32, 300]);
        if close_behind_backlog {
            // the transport resumes in trickles
            net.wr_cap = *pick(&mut cs, "wr_cap", &[0usize, 37, 500]);
            net.wr_short_permille = *pick(&mut cs, "wr_short2", &[300u32, 700]);
            net.wr_block_permille = *pick(&mut cs, "wr_block", &[0u32, 300]);
            net.wr_block_max_ns = 200_000;
        }
        let mut sched = SchedCfg::default();
        sched.stick_pct = *pick(&mut cs, "stick", &[50u32, 90, 0]);
        if !io_atomic {
            crate::gen::gen_pct(&mut cs, &mut sched, 4);
        }
        sched.io_atomic = io_atomic;
        sched.hang_after_ns = 20_000_000_000;
        sched.step_cap = 1_500_000;
        if close_only_channel {
            // a few milliseconds into the first stall the throttle has engaged
            broker.script.push((crate::broker::Trigger::AtTime(stalls[0].0 + 3_000_000), crate::broker::Action::CloseChannel { ch: 1, code: 404, text: "NOT_FOUND-gone".into() }));
        }
        let gen = Generated { plan, net, broker, sched, frame_max };
        let stalls2 = stalls.clone();
        let (res, world) = run_generated(&gen, cs, text, move |_| {
            for (a, b) in stalls2 {
                call_in(a, |w| w.set_stall(true));
                call_in(b, |w| w.set_stall(false));
            }
        });
        let mut rep = CaseReport::default();
        fill_common(&mut rep, &res, &world);
        rep.sample = serde_json::json!({"publishers": n_pub, "bound": bound, "high_water": high, "low_water": low, "io_atomic": io_atomic, "stalls_ns": stalls, "total_volume": total_volume, "owner_channel": !gen.plan.owner_ops.is_empty()});
        for p in &res.run.panics {
            rep.violate("panic", format!("{}@{}", p.thread, p.location), format!("{} panicked: {}", p.thread, p.message));
        }
        if let Some((sig, detail)) = hang_sig(&res.run.outcome) {
            rep.violate("no-resume", sig, format!("bound {} high {} low {} publishers {}: after the last stall ended somebody never finished (lost wake-up?): {}", bound, high, low, n_pub, detail));
            return rep;
        }
        if rep.inconclusive.is_some() || !rep.violations.is_empty() {
            return rep;
        }
        let n = world.net.lock().unwrap();
        // (b) conservation and order
        wire_oracle(&mut rep, "wire-", &n.c2s, &res.hist, frame_max, true, true);
        if !rep.violations.is_empty() {
            return rep;
        }
        for o in &res.hist.ops {
            if let OpResult::Err(e) = &o.result {
                if close_only_channel && o.thread == 1 {
                    continue; // the server closed that channel
                }
                rep.violate("publish-error", "error", format!("publish failed with {}", e));
                return rep;
            }
        }
        for c in &res.hist.conn {
            if let ConnRec::OpenChannel { for_thread: 0, result: Err(e), .. } = c {
                rep.violate("no-resume", "open-channel-after-stall", format!("open_channel after the stall failed with {}", e));
                return rep;
            }
        }
        rep.count("c18.close_only_channel_variant", close_only_channel as u64);
        // (a) the bound, sampled every millisecond of every stall
        let limit = high + 2 * (n_pub + 1) * (bound + 1) * frame_max;
        let mut pubs: Vec<(u64, usize)> = Vec::new(); // (ret_ns, bytes)
        for o in &res.hist.ops {
            if o.result != OpResult::Unit {
                continue;
            }
            if let Op::Publish { exchange, rk, mandatory, immediate, props, body_len, .. } = &o.op {
                let body = make_body(&o.mark, *body_len);
                let fr = publish_frames(exchange, rk, *mandatory, *immediate, make_props(*props, &o.mark), &body, frame_max);
                pubs.push((o.ret_ns, frames_len(&fr, o.ch_id)));
            }
        }
        pubs.sort();
        let mut worst = 0usize;
        let mut worst_at = 0u64;
        let mut engaged = false;
        for (a, b) in &stalls {
            let mut t = *a;
            while t <= *b {
                let accepted: usize = pubs.iter().take_while(|p| p.0 <= t).map(|p| p.1).sum();
                let written: usize = n.writes.iter().filter(|w| w.time_ns <= t).map(|w| w.len).sum();
                // bytes of handshake / channel methods are written too: only count what exceeds
                let outstanding = accepted.saturating_sub(written);
                if outstanding > worst {
                    worst = outstanding;
                    worst_at = t;
                }
                t += 1_000_000;
            }
            // did the publishers stop making progress during the stall?
            let accepted_mid: usize = pubs.iter().take_while(|p| p.0 <= (*a + *b) / 2).map(|p| p.1).sum();
            let accepted_end: usize = pubs.iter().take_while(|p| p.0 <= *b).map(|p| p.1).sum();
            let total: usize = pubs.iter().map(|p| p.1).sum();
            if accepted_end < total && accepted_end == accepted_mid {
                engaged = true;
            }
        }
        rep.count("c18.max_outstanding_bytes", 0);
        rep.count("c18.throttle_engaged", engaged as u64);
        rep.count("c18.io_atomic_runs", io_atomic as u64);
        rep.count("c18.close_behind_backlog_runs", close_behind_backlog as u64);
        // (when the server closed the publishing channel, what that channel had accepted is legitimately
        // dropped, so "accepted minus written" is not a buffer measure in that variant)
        if io_atomic && !close_only_channel && worst > limit {
            rep.violate("buffer-bound", "exceeded", format!("bound {} high {} publishers {}: at {} ns (transport stalled) {} bytes of completed publishes were not yet written; limit high + 2*N*(bound+1)*frame_max = {}", bound, high, n_pub, worst_at, worst, limit));
            return rep;
        }
        rep.nontrivial = engaged && total_volume > 2 * limit;
        rep.distinct = rep.trace_hash;
        rep
    }
}
