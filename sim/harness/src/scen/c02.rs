//! C02 — a published message reaches the wire intact and correctly framed.
use super::*;
use crate::gen::*;
use crate::oracles::{publish_oracle, publish_oracle_ext};

pub struct C02;

impl Scenario for C02 {
    fn property(&self) -> &'static str {
        "C02"
    }
    fn rule(&self) -> String {
        "Seeded sessions dominated by publishes: body lengths biased to {0,1,P-1,P,P+1,2P-1,2P,2P+1,3P,3P+1} (P = negotiated frame_max-8) plus random, 9 client/server frame_max pairs (incl. 0=unlimited, 4096, 4097, 8192, 131072), 5 property sets incl. all 14 properties and nested tables, names 1..255 bytes, all flag combinations, 1-3 threads and channels with other operations interleaved, write fragmentation on. Oracle = independent decoder at the peer. Non-trivial = the run checked >=1 publish whose body length sits on a splitting boundary (0, 1, multiple of P, or > P); distinct = hash of (frame_max, multiset of (body length, property set, flags)). The schedule dimension only adds fragmentation and a second interleaving channel here. A third of the sessions also attach 1-3 consumers to the publishing channel which the server cancels (nowait=false) at random times while publishes are under way, so that frames the I/O thread writes on its own account (Basic.CancelOk) compete with the publish's frames for the channel's sequence. One session in six instead receives a Channel.Flow (a method the client does not implement) on the publishing channel as the server's reaction to a Basic.Publish method frame whose content is still on its way: the connection may end with the client's exception, but no frame of the client's own may land inside a publish.".to_string()
    }
    fn assumptions(&self) -> Vec<String> {
        vec!["amq-protocol codec trusted at the peer".into(), "frame_max as negotiated by the simulated broker's Tune and the client option".into()]
    }
    fn plan(&self, thorough: bool, seed: u64) -> Vec<CaseSpec> {
        plan_random("C02", "publish", seed, if thorough { 200_000 } else { 10_000 })
    }
    fn run_case(&self, spec: &CaseSpec, text: bool) -> CaseReport {
        let mut cs = spec.stream();
        let mut g = GenCfg::default();
        g.max_threads = 2;
        g.max_ops = 16;
        g.consume = false;
        g.get = false;
        g.acks = false;
        g.listeners = false;
        g.publish_heavy = true;
        g.read_faults = false;
        g.frame_max_choices = vec![(0, 4096), (4096, 131072), (0, 8192), (4097, 0), (0, 131072), (8192, 4096), (5000, 0), (0, 0), (131072, 131072)];
        let mut gen = gen_session(&mut cs, &g);
        if gen.frame_max > (1 << 20) {
            // unlimited on both sides: bodies stay below one frame; keep them modest
            for t in gen.plan.threads.iter_mut() {
                for (_, op) in t.ops.iter_mut() {
                    if let crate::client::Op::Publish { body_len, .. } = op {
                        *body_len %= 70_000;
                    }
                }
            }
        }
        // a third of the sessions: the publishing channel also carries consumers which the *server* cancels
        // (nowait = false) while publishes are under way: the I/O thread's own CancelOk must not land
        // inside a publish's frames on that channel
        let mut server_cancels = 0u64;
        if cs.choose("c02_server_cancels", 3) == 0 {
            let mut next_id = 1u16;
            for t in gen.plan.threads.iter_mut() {
                let base = next_id;
                next_id += t.chan_ids.len() as u16;
                let k = 1 + cs.choose("c02_consumers", 3);
                for j in 0..k {
                    t.ops.insert(0, (0, crate::client::Op::Consume { queue: format!("cq{}", j), no_local: false, no_ack: true, exclusive: false, args: 0, via_queue: false }));
                    let at = 50_000 + cs.choose("c02_cancel_at_us", 6_000) as u64 * 1000;
                    gen.broker.script.push((crate::broker::Trigger::AtTime(at), crate::broker::Action::CancelConsumer { ch: base, nth_consumer: j, nowait: false }));
                    server_cancels += 1;
                }
            }
            gen.broker.deliveries_min = 0;
            gen.broker.deliveries_max = 1;
        }
        // one session in six: the server sends a method the client does not implement (Channel.Flow) on the
        // publishing channel while a publish's frames are on their way to the I/O thread.  Whatever the client
        // makes of it (amiquip answers with a connection exception), nothing it writes on that channel on its
        // own account may land inside the publish.
        let mut stray_flow = 0u64;
        if server_cancels == 0 && cs.choose("c02_stray_flow", 6) == 0 {
            let mut next_id = 1u16;
            for t in gen.plan.threads.iter() {
                let base = next_id;
                next_id += t.chan_ids.len() as u16;
                let publishes = t.ops.iter().filter(|(s, o)| *s == 0 && matches!(o, crate::client::Op::Publish { .. })).count() as u32;
                if publishes > 0 && cs.choose("c02_flow_here", 2) == 0 {
                    let nth = cs.choose("c02_flow_nth", publishes);
                    let mut f = Vec::new();
                    crate::wire::method(&mut f, base, &amq_protocol::protocol::AMQPClass::Channel(amq_protocol::protocol::channel::AMQPMethod::Flow(amq_protocol::protocol::channel::Flow { active: cs.choose("c02_flow_active", 2) == 1 })));
                    gen.broker.script.push((crate::broker::Trigger::OnPublishMethod { ch: base, nth }, crate::broker::Action::Raw { ch: base, frames: vec![f] }));
                    stray_flow += 1;
                    break;
                }
            }
        }
        let (res, world) = run_generated(&gen, cs, text, |_| {});
        let mut rep = CaseReport::default();
        rep.count("c02.server_cancels_scripted", server_cancels);
        rep.count("c02.stray_channel_flow_scripted", stray_flow);
        fill_common(&mut rep, &res, &world);
        rep.sample = plan_summary(&gen);
        if let Some((sig, detail)) = hang_sig(&res.run.outcome) {
            // a stream that stopped being AMQP makes the broker fall silent: if an accepted publish is not
            // whole on the wire before that point it is C02's concern, otherwise C01's
            let n = world.net.lock().unwrap();
            if crate::oracles::decode_c2s(&n.c2s).is_err() {
                publish_oracle(&mut rep, &n.c2s, &res.hist, gen.frame_max);
                if !rep.violations.is_empty() {
                    return rep;
                }
            }
            rep.inconclusive = Some(format!("hang ({}): not C02's oracle: {}", sig, detail));
            return rep;
        }
        if rep.inconclusive.is_some() {
            return rep;
        }
        let n = world.net.lock().unwrap();
        publish_oracle_ext(&mut rep, &n.c2s, &res.hist, gen.frame_max, stray_flow > 0);
        rep.nontrivial = rep.counters.get("c02.boundary_bodies").copied().unwrap_or(0) > 0;
        let mut h = gen.frame_max as u64;
        for o in &res.hist.ops {
            if let crate::client::Op::Publish { body_len, props, mandatory, immediate, .. } = &o.op {
                let x = (*body_len as u64) << 8 | (*props as u64) << 2 | (*mandatory as u64) << 1 | *immediate as u64;
                h = h.wrapping_add(x.wrapping_mul(0x9e3779b97f4a7c15));
            }
        }
        rep.distinct = h;
        rep
    }
}
