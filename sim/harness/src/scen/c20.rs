//! C20 — simultaneous closes and requests never panic; they resolve as some serial order.
use super::*;
use crate::broker::{Action, BrokerCfg, Trigger};
use crate::client::*;
use crate::gen::Generated;
use crate::session::*;
use crate::stream::NetCfg;
use crate::world::call_in;
use amiquip_simrt as simrt;
use amiquip_simrt::{ChoiceStream, SchedCfg};

pub struct C20;

const KINDS: [&str; 5] = ["server-connection-close", "server-channel-close", "channel0-request", "request-on-closed-channel", "request-on-other-channel"];

/// all ordered selections of 1..=4 distinct event kinds out of 5: 5+20+60+120 = 205
pub fn sequences() -> Vec<Vec<usize>> {
    let mut out = Vec::new();
    fn rec(cur: &mut Vec<usize>, out: &mut Vec<Vec<usize>>) {
        if !cur.is_empty() {
            out.push(cur.clone());
        }
        if cur.len() == 4 {
            return;
        }
        for k in 0..5 {
            if !cur.contains(&k) {
                cur.push(k);
                rec(cur, out);
                cur.pop();
            }
        }
    }
    rec(&mut Vec::new(), &mut out);
    out
}

#[derive(Clone, Debug, PartialEq)]
enum Mode {
    /// everything pending at once, in the given order, while the I/O thread is descheduled
    Batch,
    /// one event per wake-up: client requests first, then the closes
    SerialRequestsFirst,
    /// one event per wake-up: closes first, then the requests
    SerialClosesFirst,
    /// same two, with the client requests in the opposite relative order
    SerialRequestsFirstRev,
    SerialClosesFirstRev,
}

#[derive(Clone, Debug)]
struct Variant {
    c0_kind: u32,   // 0 listen_for_connection_blocked, 1 open_channel(None), 2 Connection::close
    /// request on the channel the server closes: 0 queue_declare, 1 publish, 2 drop the channel's consumer
    /// (receiver included, as an application does), 3 cancel it
    rn_kind: u32,
    rm_publish: bool,
    consumer_on_n: bool,
    bound: usize,
    code: u16,
}

const T0: u64 = 40_000_000;
const MS: u64 = 1_000_000;

struct Outcome {
    c0: Option<String>,
    rn: Option<String>,
    rm: Option<String>,
    close: Option<String>,
    panics: Vec<String>,
    hang: Option<String>,
    max_batch: u64,
    trace_hash: u64,
    choices: Vec<u32>,
    text: Vec<String>,
    steps: u64,
    sim_ns: u64,
    setup_ok: bool,
    /// Channel.CloseOk frames the client wrote on the channel the server closes (None: stream undecodable)
    closeok_on_n: Option<usize>,
    /// Channel.Open frames the client wrote on ids other than the two set-up channels: the channel-0 request
    /// open_channel was accepted by the I/O thread (None: stream undecodable)
    extra_channel_opens: Option<usize>,
}

fn norm(r: &OpResult) -> String {
    match r {
        OpResult::Err(e) => e.clone(),
        OpResult::Skipped => "skipped".into(),
        _ => "ok".into(),
    }
}

fn run_one(seq: &[usize], v: &Variant, mode: Mode, cs: ChoiceStream, text: bool) -> Outcome {
    let n_id = 1u16;
    let m_id = 2u16;
    let rn_op = match v.rn_kind {
        1 => Op::Publish { exchange: "x.n".into(), rk: "rk.n".into(), mandatory: false, immediate: false, props: 1, body_len: 10, via_exchange: false },
        2 => Op::DropConsumer { slot: 0, whole: true },
        3 => Op::Cancel { slot: 0 },
        _ => Op::QueueDeclare { name: "q.n".into(), durable: false, exclusive: false, auto_delete: false, args: 0, mode: crate::client::Mode::Sync },
    };
    let rm_op = if v.rm_publish {
        Op::Publish { exchange: "x.m".into(), rk: "rk.m".into(), mandatory: false, immediate: false, props: 0, body_len: 5000, via_exchange: false }
    } else {
        Op::QueueDeclare { name: "q.m".into(), durable: false, exclusive: false, auto_delete: false, args: 0, mode: crate::client::Mode::Sync }
    };
    let mut t1 = Vec::new();
    if v.consumer_on_n {
        t1.push((0usize, Op::Consume { queue: "q.c".into(), no_local: false, no_ack: true, exclusive: false, args: 0, via_queue: false }));
    }
    let rn_index = t1.len() + 1;
    t1.push((0, Op::Gate(3)));
    t1.push((0, rn_op));
    t1.push((0, Op::Gate(9)));
    t1.push((0, Op::Qos { size: 0, count: 1, global: false }));
    let t2 = vec![(0usize, Op::Gate(4)), (0, rm_op), (0, Op::Gate(9)), (0, Op::Qos { size: 0, count: 2, global: false })];
    let mut owner_ops = vec![OwnerOp::Gate(2)];
    match v.c0_kind {
        0 => owner_ops.push(OwnerOp::ListenBlocked),
        1 => owner_ops.push(OwnerOp::OpenChannel { id: None, keep: true }),
        _ => {}
    }
    let join_before_close = v.c0_kind != 2;
    if join_before_close {
        owner_ops.push(OwnerOp::Gate(9));
    }
    let plan = SessionPlan {
        opts: ConnOpts::default(),
        tuning: Tuning { bound: v.bound, high: 16 << 20, low: 0 },
        threads: vec![
            ThreadPlan { chan_ids: vec![Some(n_id)], ops: t1, close_channels: true },
            ThreadPlan { chan_ids: vec![Some(m_id)], ops: t2, close_channels: true },
        ],
        owner_ops,
        close: CloseKind::Close,
        join_before_close,
    };
    let mut broker = BrokerCfg::default();
    broker.s2c_lat_min_ns = 1_000;
    broker.s2c_lat_max_ns = 1_000;
    broker.deliveries_min = 1;
    broker.deliveries_max = 2;
    let mut net = NetCfg::default();
    net.c2s_lat_min_ns = 1_000;
    net.c2s_lat_max_ns = 1_000;
    // the timeline
    let step = if mode == Mode::Batch { MS } else { 10 * MS };
    let order: Vec<usize> = match mode {
        Mode::Batch => seq.to_vec(),
        Mode::SerialRequestsFirst | Mode::SerialRequestsFirstRev => {
            let mut o: Vec<usize> = seq.iter().cloned().filter(|k| *k >= 2).collect();
            if mode == Mode::SerialRequestsFirstRev {
                o.reverse();
            }
            // closes in their physical order: channel close can only precede the connection close
            if seq.contains(&1) {
                o.push(1);
            }
            if seq.contains(&0) {
                o.push(0);
            }
            o
        }
        Mode::SerialClosesFirst | Mode::SerialClosesFirstRev => {
            let mut o = Vec::new();
            if seq.contains(&1) {
                o.push(1);
            }
            if seq.contains(&0) {
                o.push(0);
            }
            let mut r: Vec<usize> = seq.iter().cloned().filter(|k| *k >= 2).collect();
            if mode == Mode::SerialClosesFirstRev {
                r.reverse();
            }
            o.extend(r);
            o
        }
    };
    let text_conn = format!("CONNECTION_FORCED-{}", v.code);
    let text_ch = format!("PRECONDITION_FAILED-{}", v.code);
    let mut times: Vec<(usize, u64)> = Vec::new();
    for (i, k) in order.iter().enumerate() {
        times.push((*k, T0 + (i as u64 + 1) * step));
    }
    // in a batch both closes travel in the byte stream: the channel close cannot follow the
    // connection close; if the order asks for that, the channel close is sent just before it
    if mode == Mode::Batch {
        let pc = times.iter().position(|t| t.0 == 0);
        let pch = times.iter().position(|t| t.0 == 1);
        if let (Some(pc), Some(pch)) = (pc, pch) {
            if pch > pc {
                let t = times[pc].1;
                times[pch].1 = t - 200_000;
            }
        }
    }
    let end_of_events = T0 + (order.len() as u64 + 2) * step;
    for (k, at) in &times {
        match k {
            0 => broker.script.push((Trigger::AtTime(*at), Action::CloseConnection { code: v.code, text: text_conn.clone() })),
            1 => broker.script.push((Trigger::AtTime(*at), Action::CloseChannel { ch: n_id, code: v.code + 1, text: text_ch.clone() })),
            _ => {}
        }
    }
    let mut sched = SchedCfg::default();
    sched.stick_pct = 90;
    sched.record_text = text;
    sched.hang_after_ns = 5_000_000_000;
    let gen = Generated { plan, net, broker, sched, frame_max: 131072 };
    let times2 = times.clone();
    let batch = mode == Mode::Batch;
    let (res, world) = run_generated(&gen, cs, text, move |_w| {
        if batch {
            call_in(T0, move |_| simrt::stall_thread_named("amiquip-io", end_of_events));
        }
        for (k, at) in times2 {
            let gate = match k {
                2 => 2,
                3 => 3,
                4 => 4,
                _ => continue,
            };
            call_in(at, move |_| simrt::gate_open(gate));
        }
        // everybody whose request is not part of the event set goes on afterwards
        call_in(end_of_events + 20 * MS, |_| {
            for g in [2u64, 3, 4] {
                simrt::gate_open(g);
            }
        });
        call_in(end_of_events + 40 * MS, |_| simrt::gate_open(9));
    });
    let mut o = Outcome {
        c0: None,
        rn: None,
        rm: None,
        close: None,
        panics: res.run.panics.iter().map(|p| format!("{} at {}: {}", p.thread, p.location, p.message)).collect(),
        hang: hang_sig(&res.run.outcome).map(|(s, d)| format!("{} :: {}", s, d)),
        max_batch: res.run.fin.stats.max_poll_batch,
        trace_hash: res.run.fin.trace_hash,
        choices: res.run.fin.choices.record.clone(),
        text: Vec::new(),
        steps: res.run.fin.stats.steps,
        sim_ns: res.run.fin.sim_ns,
        setup_ok: true,
        extra_channel_opens: {
            let n = world.net.lock().unwrap();
            crate::oracles::decode_c2s(&n.c2s).ok().map(|per| {
                per.iter()
                    .filter(|(ch, _)| **ch != n_id && **ch != m_id && **ch != 0)
                    .map(|(_, v)| v.iter().filter(|(_, _, f)| matches!(f, amq_protocol::frame::AMQPFrame::Method(_, amq_protocol::protocol::AMQPClass::Channel(amq_protocol::protocol::channel::AMQPMethod::Open(_))))).count())
                    .sum()
            })
        },
        closeok_on_n: {
            let n = world.net.lock().unwrap();
            crate::oracles::decode_c2s(&n.c2s).ok().map(|per| {
                per.get(&n_id)
                    .map(|v| v.iter().filter(|(_, _, f)| matches!(f, amq_protocol::frame::AMQPFrame::Method(_, amq_protocol::protocol::AMQPClass::Channel(amq_protocol::protocol::channel::AMQPMethod::CloseOk(_))))).count())
                    .unwrap_or(0)
            })
        },
    };
    let mut rep = CaseReport::default();
    if text {
        fill_common(&mut rep, &res, &world);
        o.text = rep.text;
    }
    for c in &res.hist.conn {
        match c {
            ConnRec::ListenBlocked { result, .. } => o.c0 = Some(result.clone().map(|_| "ok".to_string()).unwrap_or_else(|e| e)),
            ConnRec::OpenChannel { for_thread: 0, result, .. } => o.c0 = Some(result.clone().map(|_| "ok".to_string()).unwrap_or_else(|e| e)),
            ConnRec::OpenChannel { result: Err(_), .. } => o.setup_ok = false,
            ConnRec::Open { result: Err(_), .. } => o.setup_ok = false,
            ConnRec::Close { result, .. } => o.close = Some(result.clone().map(|_| "ok".to_string()).unwrap_or_else(|e| e)),
            _ => {}
        }
    }
    if v.c0_kind == 2 {
        o.c0 = o.close.clone();
    }
    for op in &res.hist.ops {
        if op.thread == 1 && op.idx == rn_index {
            o.rn = Some(norm(&op.result));
            if op.invoke_ns < T0 {
                o.setup_ok = false;
            }
        }
        if op.thread == 2 && op.idx == 1 {
            o.rm = Some(norm(&op.result));
        }
        // everybody must have been waiting at the gates when the events started
        if let Op::Gate(g) = &op.op {
            if *g != 9 && op.invoke_ns >= T0 {
                o.setup_ok = false;
            }
        }
    }
    o
}

impl Scenario for C20 {
    fn property(&self) -> &'static str {
        "C20"
    }
    fn level(&self) -> &'static str {
        "fault_enumeration"
    }
    fn rule(&self) -> String {
        "Systematic: all 205 ordered selections of 1-4 events out of {server connection close, server channel close, client channel-0 request (listen_for_connection_blocked / open_channel / Connection::close), request on the closed channel, request on another channel}, each x seeds (variants: request kinds, consumer attached, channel bound, scheduler choices). The simulator deschedules the I/O thread, makes the events pending in the chosen order (network delivers the server's closes with zero latency; gated client threads issue their requests one after the other), releases it, and real mio hands them over in one poll batch. The two closes travel in one byte stream, so a channel close can only precede the connection close; an order asking otherwise is realised with the channel close immediately before it. Oracle (differential, no error kind hard-coded): no panic; close() reports the server's connection close when one is in the set; each request's outcome equals its outcome in one of two serial executions of the same events in the same simulator (one event per wake-up: requests strictly before the closes / strictly after them). Non-trivial = the I/O thread really received >=2 tokens in one poll batch (or the set has one event); distinct = (ordering, variant, trace hash).".to_string()
    }
    fn exhaustive(&self, _thorough: bool) -> bool {
        true
    }
    fn plan(&self, thorough: bool, seed: u64) -> Vec<CaseSpec> {
        let seqs = sequences();
        let per = if thorough { 100 } else { 12 };
        let mut v = Vec::new();
        for (i, _) in seqs.iter().enumerate() {
            for s in seeds_for("C20", "batch", seed.wrapping_add(i as u64 * 7919), per) {
                v.push(CaseSpec { family: "batch".into(), seed: s, params: vec![i as i64], choices: None });
            }
        }
        v
    }
    fn run_case(&self, spec: &CaseSpec, text: bool) -> CaseReport {
        let seqs = sequences();
        let si = spec.params.first().copied().unwrap_or(0) as usize % seqs.len();
        let seq = seqs[si].clone();
        let mut cs = spec.stream();
        let v = Variant {
            c0_kind: cs.choose("c0_kind", 3),
            rn_kind: cs.choose("rn_kind", 4),
            rm_publish: cs.choose("rm_publish", 2) == 1,
            consumer_on_n: cs.choose("consumer_on_n", 2) == 1,
            bound: [16usize, 1, 2][cs.choose("bound", 3) as usize],
            code: 300 + cs.choose("code", 200) as u16,
        };
        let v = Variant { consumer_on_n: v.consumer_on_n || v.rn_kind >= 2, ..v };
        let head = cs.record.clone();
        // the two serial executions use fixed, simple schedules of their own
        let a = run_one(&seq, &v, Mode::SerialRequestsFirst, ChoiceStream::generate(spec.seed ^ 0xA), false);
        let b = run_one(&seq, &v, Mode::SerialClosesFirst, ChoiceStream::generate(spec.seed ^ 0xB), false);
        let n_req = seq.iter().filter(|k| **k >= 2).count();
        let (a2, b2) = if n_req >= 2 {
            (Some(run_one(&seq, &v, Mode::SerialRequestsFirstRev, ChoiceStream::generate(spec.seed ^ 0xC), false)), Some(run_one(&seq, &v, Mode::SerialClosesFirstRev, ChoiceStream::generate(spec.seed ^ 0xD), false)))
        } else {
            (None, None)
        };
        let x = run_one(&seq, &v, Mode::Batch, cs, text);
        let mut rep = CaseReport::default();
        rep.choices = head;
        rep.choices.extend(x.choices.iter().skip(rep.choices.len()));
        rep.choices = x.choices.clone();
        rep.trace_hash = x.trace_hash;
        rep.steps = x.steps + a.steps + b.steps + a2.as_ref().map(|o| o.steps).unwrap_or(0) + b2.as_ref().map(|o| o.steps).unwrap_or(0);
        rep.sim_ns = x.sim_ns + a.sim_ns + b.sim_ns + a2.as_ref().map(|o| o.sim_ns).unwrap_or(0) + b2.as_ref().map(|o| o.sim_ns).unwrap_or(0);
        rep.text = x.text.clone();
        rep.sample = serde_json::json!({"events_in_order": seq.iter().map(|k| KINDS[*k]).collect::<Vec<_>>(), "variant": format!("{:?}", v),
            "batch_outcome": {"c0": x.c0, "rn": x.rn, "rm": x.rm, "close": x.close},
            "serial_requests_first": {"c0": a.c0, "rn": a.rn, "rm": a.rm, "close": a.close},
            "serial_closes_first": {"c0": b.c0, "rn": b.rn, "rm": b.rm, "close": b.close}});
        rep.count("c20.runs_in_simulator", if a2.is_some() { 5 } else { 3 });
        if !x.setup_ok || !a.setup_ok || !b.setup_ok {
            rep.inconclusive = Some("setup did not reach the gates before the events".into());
            return rep;
        }
        for p in x.panics.iter() {
            let site = p.split(':').take(2).collect::<Vec<_>>().join(":");
            rep.violate("panic", site, format!("events {:?} pending in one batch: {}", seq.iter().map(|k| KINDS[*k]).collect::<Vec<_>>(), p));
        }
        if !rep.violations.is_empty() {
            return rep;
        }
        for (which, o) in [("serial-requests-first", &a), ("serial-closes-first", &b)] {
            if !o.panics.is_empty() || o.hang.is_some() {
                rep.violate("serial-run", which, format!("even one event per wake-up misbehaves: panics {:?} hang {:?}", o.panics, o.hang));
                return rep;
            }
        }
        if let Some(h) = &x.hang {
            rep.violate("hang", h.split(" :: ").next().unwrap_or("").to_string(), format!("events {:?} in one batch: {}", seq.iter().map(|k| KINDS[*k]).collect::<Vec<_>>(), h));
            return rep;
        }
        let tokens = seq.iter().filter(|k| **k >= 2).count() as u64 + if seq.iter().any(|k| *k < 2) { 1 } else { 0 };
        rep.count("c20.expected_tokens", tokens);
        rep.count("c20.batches_with_all_tokens", (x.max_batch >= tokens) as u64);
        rep.nontrivial = x.max_batch >= tokens;
        if seq.contains(&0) {
            let want = format!("ServerClosedConnection({},CONNECTION_FORCED-{})", v.code, v.code);
            if x.close.as_deref() != Some(want.as_str()) {
                rep.violate("close-result", "not-server-close", format!("events {:?}: Connection::close returned {:?}, the server closed with {}", seq.iter().map(|k| KINDS[*k]).collect::<Vec<_>>(), x.close, want));
                return rep;
            }
        }
        // the server's channel close is answered exactly once, whatever else was pending with it (unless a
        // connection close, from either side, may legitimately have overtaken the answer)
        if seq.contains(&1) && !seq.contains(&0) && !(seq.contains(&2) && v.c0_kind == 2) {
            rep.count("c20.channel_closeok_checked", 1);
            if x.closeok_on_n != Some(1) {
                rep.violate("channel-close-ok", if x.closeok_on_n == Some(0) { "missing" } else { "not-exactly-one" }, format!("events {:?} in one batch: the server closed channel 1, the client wrote {:?} Channel.CloseOk frames on it", seq.iter().map(|k| KINDS[*k]).collect::<Vec<_>>(), x.closeok_on_n));
                return rep;
            }
        }
        // an open_channel that the I/O thread took from its allocation queue before it handled the server's
        // connection close (the request precedes the close in the batch, and the batch really held everything)
        // "either takes effect before the close or fails with the close's error": the new channel's slot exists
        // when the close is handled, so it must be told.  The differential clause below cannot see a defect that
        // bends the serial runs the same way (there, too, the open may still await its OpenOk when the close comes).
        if v.c0_kind == 1 && x.max_batch >= tokens {
            // (both server closes travel in the one byte stream: the socket's place in the batch is that of the
            // first of them)
            let p_stream = seq.iter().position(|k| *k == 0 || *k == 1);
            if let (Some(p2), Some(ps), true, Some(g)) = (seq.iter().position(|k| *k == 2), p_stream, seq.contains(&0), &x.c0) {
                if p2 < ps {
                    rep.count("c20.open_channel_accepted_before_connection_close", 1);
                    let want = format!("ServerClosedConnection({},CONNECTION_FORCED-{})", v.code, v.code);
                    if g != "ok" && g != &want {
                        rep.violate("accepted-request-error", "open-channel", format!("events {:?} in one batch: open_channel was taken from the allocation queue before the close was handled and ended as {:?}: neither success nor the close's error {}", seq.iter().map(|k| KINDS[*k]).collect::<Vec<_>>(), g, want));
                        return rep;
                    }
                }
            }
        }
        // "fails with the close's error" — the errors the statement itself names
        let conn_err = format!("ServerClosedConnection({},CONNECTION_FORCED-{})", v.code, v.code);
        let ch_err = format!("ServerClosedChannel(1,{},PRECONDITION_FAILED-{})", v.code + 1, v.code);
        let none: Option<String> = None;
        for (which, name, got, s1, s2) in [(2usize, "channel0-request", &x.c0, &a.c0, &b.c0), (3, "request-on-closed-channel", &x.rn, &a.rn, &b.rn), (4, "request-on-other-channel", &x.rm, &a.rm, &b.rm)] {
            let (s3, s4) = match (&a2, &b2) {
                (Some(a2), Some(b2)) => match which {
                    2 => (&a2.c0, &b2.c0),
                    3 => (&a2.rn, &b2.rn),
                    _ => (&a2.rm, &b2.rm),
                },
                _ => (&none, &none),
            };
            let is_close_error = (seq.contains(&0) && got.as_deref() == Some(conn_err.as_str())) || (which == 3 && seq.contains(&1) && got.as_deref() == Some(ch_err.as_str()));
            if !seq.contains(&which) {
                continue;
            }
            if got != s1 && got != s2 && !(n_req >= 2 && (got == s3 || got == s4)) && !is_close_error {
                rep.violate("not-serializable", name, format!("events {:?} in one batch: {} ended as {:?}; with the requests strictly before the closes it ends as {:?}, strictly after them as {:?}", seq.iter().map(|k| KINDS[*k]).collect::<Vec<_>>(), name, got, s1, s2));
                return rep;
            }
        }
        let mut h = x.trace_hash ^ (si as u64) << 48;
        h ^= (v.c0_kind as u64) << 40 | (v.rn_kind as u64) << 33 | ((v.rn_kind == 1) as u64) << 39 | (v.rm_publish as u64) << 38 | (v.consumer_on_n as u64) << 37;
        rep.distinct = h;
        rep
    }
}
