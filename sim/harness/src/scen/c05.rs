//! C05 — when a connection dies, every caller is released with an error; nobody hangs.
use super::*;
use crate::broker::{Action, CutKind, SentKind, Trigger};
use crate::client::*;
use crate::lifecycle::*;
use crate::wire;
use amq_protocol::protocol::tx;
use amq_protocol::protocol::AMQPClass;

pub struct C05;

const KIND_NAMES: [&str; 8] = ["eof-at-offset", "reset-at-offset", "write-error-at-call", "corrupt-frame-end", "silence", "server-close", "client-exception", "corrupt-frame-type"];

struct Baseline {
    h_off: usize,
    l_off: usize,
    w_hs: u64,
    w_total: u64,
    t_open: u64,
    t_last_send: u64,
    frame_ends: Vec<usize>,
    frame_starts: Vec<usize>,
    boundaries: Vec<usize>,
    ok: bool,
}

fn life_cfg(heartbeat: u16) -> LifeCfg {
    LifeCfg {
        consumer_ends: vec![ConsumerEnd::ClientCancel, ConsumerEnd::ServerCancel { nowait: false }, ConsumerEnd::Drop, ConsumerEnd::DropWhole, ConsumerEnd::ClientCancel],
        channel_ends: vec![ChannelEnd::Normal],
        conn_ends: vec![ConnEnd::Normal],
        max_threads: 3,
        busy_ops: 8,
        write_faults: false,
        read_faults: false,
        heartbeat,
        explicit_drop_after_server_cancel: false,
        empty_publish_before_server_cancel: false,
    }
}

/// A third of the sessions: the connection's owner keeps opening (and closing) channels while the workers run, so
/// that an open_channel request - which travels through the I/O thread's allocation queue, not a channel's - is
/// often in flight when the connection dies.
fn owner_opens(cs: &mut amiquip_simrt::ChoiceStream, life: &mut Life) {
    if cs.choose("c05_owner_opens", 3) == 0 && life.gen.plan.join_before_close {
        let n = 2 + cs.choose("c05_owner_open_n", 10);
        let mut ops = Vec::new();
        for _ in 0..n {
            ops.push(crate::session::OwnerOp::OpenChannel { id: None, keep: false });
            let gap = *crate::gen::pick(cs, "c05_owner_open_gap", &[0u64, 20_000, 200_000]);
            if gap > 0 {
                ops.push(crate::session::OwnerOp::SleepNs(gap));
            }
        }
        ops.append(&mut life.gen.plan.owner_ops);
        life.gen.plan.owner_ops = ops;
    }
}

fn build(seed: u64) -> (Life, amiquip_simrt::ChoiceStream) {
    let mut cs = amiquip_simrt::ChoiceStream::generate(seed);
    let hb = if cs.choose("c05_heartbeat", 3) == 0 { 1 } else { 0 };
    let mut life = gen_life(&mut cs, &life_cfg(hb));
    // crash points are byte offsets / call numbers of *this* run: keep its own randomness small
    life.gen.broker.tune.2 = hb;
    life.gen.broker.seg_mode = crate::broker::SegMode::Whole;
    life.gen.broker.mux_burst_max = 1;
    life.gen.broker.body_max = life.gen.broker.body_max.min(600);
    life.gen.sched.hang_after_ns = 30_000_000_000;
    // a quarter of the sessions end by dropping the Connection instead of calling close()
    if cs.choose("c05_close_by_drop", 4) == 0 {
        life.gen.plan.close = crate::session::CloseKind::Drop;
    }
    owner_opens(&mut cs, &mut life);
    (life, cs)
}

fn baseline(seed: u64) -> Baseline {
    let (life, cs) = build(seed);
    let (res, world) = run_generated(&life.gen, cs, false, |_| {});
    let n = world.net.lock().unwrap();
    let open_ok = res.hist.conn.iter().any(|c| matches!(c, ConnRec::Open { result: Ok(()), .. }));
    let closed_ok = res.hist.conn.iter().any(|c| matches!(c, ConnRec::Close { result: Ok(()), .. }));
    let h = world.broker.sent.iter().find(|s| matches!(s.kind, SentKind::Handshake("open-ok"))).map(|s| (s.s2c_end, s.time_ns));
    let (h_off, t_open) = h.unwrap_or((0, 0));
    let w_hs = n.writes.iter().filter(|w| w.time_ns <= t_open + 1_000_000).count() as u64;
    let mut frame_ends = Vec::new();
    let mut frame_starts = Vec::new();
    let mut boundaries = Vec::new();
    for s in &world.broker.sent {
        if s.s2c_end > h_off {
            frame_ends.push(s.s2c_end - 1);
            frame_starts.push(s.s2c_start);
            boundaries.push(s.s2c_start);
            boundaries.push(s.s2c_end);
        }
    }
    Baseline {
        h_off,
        l_off: world.broker.s2c.len(),
        w_hs,
        w_total: n.write_calls,
        t_open,
        t_last_send: world.broker.sent.last().map(|s| s.time_ns).unwrap_or(0),
        frame_ends,
        frame_starts,
        boundaries,
        ok: open_ok && closed_ok && matches!(res.run.outcome, amiquip_simrt::Outcome::Finished) && h.is_some(),
    }
}

impl Scenario for C05 {
    fn property(&self) -> &'static str {
        "C05"
    }
    fn level(&self) -> &'static str {
        "fault_enumeration"
    }
    fn rule(&self) -> String {
        "For each seeded session (1-3 worker threads mid-RPC / mid-publish / blocked on consumer queues; a third of them with a 1 s heartbeat) a fault-free run records L = server->client bytes after the handshake and W = client write calls; then one run per (crash point, kind): EOF and connection reset at byte offsets of the server->client stream (quick: every frame boundary +-1 plus every 13th offset; thorough: every offset, every 3rd when more than 3000), write error at every write call after the handshake, a corrupted frame-end octet and a corrupted frame-type octet of every server message, and - at sampled times - server silence (heartbeat sessions), a server Connection.Close(code,text) and an unimplemented-class method that triggers the client-exception path. Oracle: no hang (exact detector + 30 s blocked rule), no panic, every consumer queue drained to disconnection, every call invoked after the I/O thread exited fails, Connection::close returns the root cause allowed for the kind (EOF: UnexpectedSocketClose; reset: IoErrorReadingSocket|IoErrorWritingSocket; write error: IoErrorWritingSocket; corruption: MalformedFrame; silence: MissedServerHeartbeats; server close: ServerClosedConnection{code,text}; exception: ClientException), and when close returns the I/O thread has exited and the transport was dropped. Handshake-time failures belong to C16. Non-trivial = the fault really fired before the session's own end and at least one worker call was in flight or issued afterwards; distinct = (session seed, kind, point).".to_string()
    }
    fn plan(&self, thorough: bool, seed: u64) -> Vec<CaseSpec> {
        let n_sessions = if thorough { 600 } else { 120 };
        let seeds = seeds_for("C05", "crash", seed, n_sessions);
        let mut v = Vec::new();
        for s in seeds {
            let b = baseline(s);
            if !b.ok {
                continue;
            }
            let mut offs: Vec<usize> = Vec::new();
            let span = b.l_off - b.h_off;
            let stride = if thorough { if span > 3000 { 3 } else { 1 } } else { 13 };
            let mut k = b.h_off;
            while k < b.l_off {
                offs.push(k);
                k += stride;
            }
            for bd in &b.boundaries {
                for d in [-1i64, 0, 1] {
                    let x = *bd as i64 + d;
                    if x >= b.h_off as i64 && (x as usize) < b.l_off {
                        offs.push(x as usize);
                    }
                }
            }
            offs.sort();
            offs.dedup();
            for k in &offs {
                v.push(CaseSpec { family: "crash".into(), seed: s, params: vec![0, *k as i64], choices: None });
                v.push(CaseSpec { family: "crash".into(), seed: s, params: vec![1, *k as i64], choices: None });
            }
            for w in (b.w_hs + 1)..=b.w_total {
                v.push(CaseSpec { family: "crash".into(), seed: s, params: vec![2, w as i64], choices: None });
            }
            for e in &b.frame_ends {
                v.push(CaseSpec { family: "crash".into(), seed: s, params: vec![3, *e as i64], choices: None });
            }
            for e in &b.frame_starts {
                v.push(CaseSpec { family: "crash".into(), seed: s, params: vec![7, *e as i64], choices: None });
            }
            let n_times = if thorough { 12 } else { 4 };
            for i in 0..n_times {
                let span = b.t_last_send.saturating_sub(b.t_open).max(1);
                let t = b.t_open + span * (i as u64 * 2 + 1) / (n_times as u64 * 2);
                for kind in [4i64, 5, 6] {
                    v.push(CaseSpec { family: "crash".into(), seed: s, params: vec![kind, t as i64], choices: None });
                }
            }
        }
        v
    }
    fn run_case(&self, spec: &CaseSpec, text: bool) -> CaseReport {
        let kind = spec.params.first().copied().unwrap_or(0);
        let point = spec.params.get(1).copied().unwrap_or(0);
        let (mut life, mut cs) = build(spec.seed);
        if let Some(c) = &spec.choices {
            // replay: regenerate the plan from the recorded prefix
            let mut r = amiquip_simrt::ChoiceStream::replay(c.clone());
            let hb = if r.choose("c05_heartbeat", 3) == 0 { 1 } else { 0 };
            let mut l2 = gen_life(&mut r, &life_cfg(hb));
            l2.gen.broker.tune.2 = hb;
            l2.gen.broker.seg_mode = crate::broker::SegMode::Whole;
            l2.gen.broker.mux_burst_max = 1;
            l2.gen.broker.body_max = l2.gen.broker.body_max.min(600);
            l2.gen.sched.hang_after_ns = 30_000_000_000;
            if r.choose("c05_close_by_drop", 4) == 0 {
                l2.gen.plan.close = crate::session::CloseKind::Drop;
            }
            owner_opens(&mut r, &mut l2);
            life = l2;
            cs = r;
        }
        let hb = life.gen.plan.opts.heartbeat;
        let mut rep = CaseReport::default();
        let code = 320 + (point % 200) as u16;
        let ctext = format!("CONNECTION_FORCED-{}", point);
        match kind {
            0 => life.gen.broker.s2c_cut = Some((point as usize, CutKind::Eof)),
            1 => life.gen.broker.s2c_cut = Some((point as usize, CutKind::Reset)),
            3 | 7 => life.gen.broker.s2c_corrupt = Some(point as usize),
            4 => {
                if hb == 0 {
                    rep.inconclusive = Some("silence needs a heartbeat session".into());
                    rep.choices = cs.record.clone();
                    return rep;
                }
                life.gen.broker.script.push((Trigger::AtTime(point as u64), Action::Silence));
            }
            5 => life.gen.broker.script.push((Trigger::AtTime(point as u64), Action::CloseConnection { code, text: ctext.clone() })),
            6 => {
                let mut f = Vec::new();
                wire::method(&mut f, 0, &AMQPClass::Tx(tx::AMQPMethod::SelectOk(tx::SelectOk {})));
                life.gen.broker.script.push((Trigger::AtTime(point as u64), Action::Raw { ch: 0, frames: vec![f] }));
            }
            _ => {}
        }
        // the kind of I/O error a reset / failing write reports varies with the crash point (none of them is
        // "try again later": each must end the connection as a socket error)
        if kind == 1 || kind == 2 {
            life.gen.net.err_kind = (point as usize / 3) % crate::stream::ERR_KINDS.len();
            rep.count(&format!("c05.io_error_kind.{:?}", crate::stream::ERR_KINDS[life.gen.net.err_kind]), 1);
        }
        let wr_at = if kind == 2 { Some(point as u64) } else { None };
        let (res, world) = run_generated(&life.gen, cs, text, |w| {
            if let Some(n) = wr_at {
                w.net.lock().unwrap().wr_err_at_call = Some(n);
            }
        });
        fill_common(&mut rep, &res, &world);
        rep.sample = serde_json::json!({"session_seed": spec.seed, "kind": KIND_NAMES[kind as usize % 8], "point": point, "heartbeat": hb, "plan": plan_summary(&life.gen)});
        rep.count(&format!("c05.kind.{}", KIND_NAMES[kind as usize % 8]), 1);
        for p in &res.run.panics {
            rep.violate("panic", format!("{}@{}", p.thread, p.location), format!("{} {} at {}: {} panicked: {}", KIND_NAMES[kind as usize % 8], point, p.location, p.thread, p.message));
        }
        if let Some((sig, detail)) = hang_sig(&res.run.outcome) {
            rep.violate("hang", format!("{}:{}", KIND_NAMES[kind as usize % 8], sig), format!("{} at {}: the connection died (or should have) and somebody is never released: {}", KIND_NAMES[kind as usize % 8], point, detail));
            return rep;
        }
        if rep.inconclusive.is_some() {
            return rep;
        }
        let n = world.net.lock().unwrap();
        let by_drop = res.hist.conn.iter().any(|c| matches!(c, ConnRec::Close { by_drop: true, .. }));
        rep.count("c05.closed_by_drop", by_drop as u64);
        let close = res.hist.conn.iter().find_map(|c| if let ConnRec::Close { result, ret, .. } = c { Some((result.clone(), *ret)) } else { None });
        let (close_result, close_ret) = match close {
            Some(x) => x,
            None => {
                rep.inconclusive = Some("open failed: handshake-time failure (C16)".into());
                return rep;
            }
        };
        let client_close_on_wire = {
            match crate::oracles::decode_c2s(&n.c2s) {
                Ok(per) => per.get(&0).map(|v| v.iter().any(|(_, _, f)| matches!(f, amq_protocol::frame::AMQPFrame::Method(_, AMQPClass::Connection(amq_protocol::protocol::connection::AMQPMethod::Close(c))) if c.reply_code == 200))).unwrap_or(false),
                Err(_) => false,
            }
        };
        let fired = match kind {
            0 => n.stats.eof_injected > 0,
            1 => n.stats.rd_err_injected > 0,
            2 => n.stats.wr_err_injected > 0,
            3 | 7 => world.broker.s2c.len() > point as usize,
            4 => world.broker.silent,
            5 => world.broker.sent.iter().any(|s| matches!(s.kind, SentKind::ConnectionClose { .. })),
            _ => world.broker.sent.iter().any(|s| matches!(s.kind, SentKind::Raw)),
        };
        rep.count("c05.fault_fired", fired as u64);
        let got = match &close_result {
            Ok(()) => "Ok".to_string(),
            Err(e) => e.clone(),
        };
        let allowed: Vec<String> = match kind {
            0 => vec!["UnexpectedSocketClose".into()],
            1 => vec!["IoErrorReadingSocket".into(), "IoErrorWritingSocket".into()],
            2 => vec!["IoErrorWritingSocket".into()],
            3 | 7 => vec!["MalformedFrame".into()],
            4 => vec!["MissedServerHeartbeats".into()],
            5 => {
                let mut v = vec![format!("ServerClosedConnection({},{})", code, ctext)];
                if client_close_on_wire {
                    v.push("Ok".into());
                }
                v
            }
            _ => {
                let mut v = vec!["ClientException".to_string()];
                if client_close_on_wire {
                    v.push("Ok".into());
                }
                v
            }
        };
        // a dropped Connection reports nothing: only the release clauses below apply
        if !by_drop && fired && !allowed.contains(&got) {
            rep.violate("close-result", format!("{}:{}", KIND_NAMES[kind as usize % 8], got.split('(').next().unwrap_or("")), format!("{} at {}: Connection::close returned {} ; allowed for this kind: {:?}", KIND_NAMES[kind as usize % 8], point, got, allowed));
            return rep;
        }
        if !by_drop && !fired && got != "Ok" {
            rep.violate("close-result", format!("no-fault:{}", got.split('(').next().unwrap_or("")), format!("the fault never fired, yet close returned {}", got));
            return rep;
        }
        // I/O thread gone and transport released once close has returned
        match res.run.io_exit {
            Some(x) if x <= close_ret => {}
            other => {
                rep.violate("io-thread-alive", "after-close", format!("Connection::close returned at step {} but the I/O thread exit is {:?}", close_ret, other));
                return rep;
            }
        }
        if !n.dropped || n.dropped_stamp > close_ret {
            rep.violate("transport-not-released", "after-close", format!("transport dropped={} at step {}, close returned at step {}", n.dropped, n.dropped_stamp, close_ret));
            return rep;
        }
        let io_exit = res.run.io_exit.unwrap_or(u64::MAX);
        let mut after = 0;
        for o in &res.hist.ops {
            if let OpResult::Drained { disconnected, .. } = &o.result {
                if !*disconnected {
                    rep.violate("consumer-queue", "not-terminated", format!("{} at {}: a consumer queue did not terminate", KIND_NAMES[kind as usize % 8], point));
                    return rep;
                }
            }
            if o.invoke > io_exit && o.result != OpResult::Skipped && touches_channel(&o.op) {
                after += 1;
                if !matches!(o.result, OpResult::Err(_)) {
                    rep.violate("call-after-death", "succeeded", format!("{} at {}: {} invoked at step {} after the I/O thread exited (step {}) returned {:?}", KIND_NAMES[kind as usize % 8], point, crate::expect::short_op(&o.op), o.invoke, io_exit, o.result));
                    return rep;
                }
            }
        }
        for c in &res.hist.conn {
            if let ConnRec::OpenChannel { invoke, result: Ok(_), .. } = c {
                if *invoke > io_exit {
                    rep.violate("call-after-death", "open_channel-succeeded", format!("open_channel invoked after the I/O thread exited returned {:?}", c));
                    return rep;
                }
            }
        }
        rep.count("c05.calls_after_death", after);
        let in_flight = res.hist.ops.iter().any(|o| o.invoke < io_exit && o.ret > io_exit);
        rep.count("c05.runs_with_call_in_flight_at_death", in_flight as u64);
        rep.nontrivial = fired && (in_flight || after > 0);
        rep.distinct = spec.seed ^ ((kind as u64) << 56) ^ (point as u64).wrapping_mul(0x9e3779b97f4a7c15);
        rep
    }
}
