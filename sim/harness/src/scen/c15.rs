//! C15 — tuning is negotiated as documented and then obeyed.
use super::*;
use crate::broker::BrokerCfg;
use crate::client::*;
use crate::gen::{pick, Generated};
use crate::oracles::publish_oracle;
use crate::session::*;
use crate::stream::NetCfg;
use crate::wire;
use amiquip_simrt::SchedCfg;
use amq_protocol::frame::AMQPFrame;
use amq_protocol::protocol::connection::AMQPMethod as Cn;
use amq_protocol::protocol::AMQPClass;

pub struct C15;

const CM: [u16; 6] = [0, 1, 2, 7, 2047, 65535];
const FM: [u32; 8] = [0, 1, 4095, 4096, 4097, 8192, 131072, u32::MAX];
const HB: [u16; 5] = [0, 1, 2, 60, 65535];
const SEC: u64 = 1_000_000_000;

fn grid_size() -> usize {
    CM.len() * CM.len() * FM.len() * FM.len() * HB.len() * HB.len()
}

fn decode_grid(mut i: usize) -> ((u16, u32, u16), (u16, u32, u16)) {
    let c_cm = CM[i % CM.len()];
    i /= CM.len();
    let s_cm = CM[i % CM.len()];
    i /= CM.len();
    let c_fm = FM[i % FM.len()];
    i /= FM.len();
    let s_fm = FM[i % FM.len()];
    i /= FM.len();
    let c_hb = HB[i % HB.len()];
    i /= HB.len();
    let s_hb = HB[i % HB.len()];
    ((c_cm, c_fm, c_hb), (s_cm, s_fm, s_hb))
}

impl Scenario for C15 {
    fn property(&self) -> &'static str {
        "C15"
    }
    fn rule(&self) -> String {
        format!("Systematic grid over client options x server Tune: channel_max in {:?}, frame_max in {:?}, heartbeat in {:?} on each side = {} combinations (both tiers walk all of them; thorough with 5 seeds each), each run on the simulated clock. Oracle: TuneOk on the wire equals the model (0 = no limit, both unlimited => the field's maximum, heartbeat = min with 0 dominant); a resulting frame_max < 4096 fails with FrameMaxTooSmall and no TuneOk is written. Then the same connection must behave by the announced values: open_channel(Some(channel_max)) succeeds and Some(channel_max+1) is refused with UnavailableChannelId; a body of 3*(frame_max-8)+1 bytes (10 kB when unlimited) is split into frames <= frame_max (C02's decoder); with heartbeat h>0 an idle stretch of 3h shows client->server gaps <= h+0.3 s, with 0 no heartbeat frame in 100 s. Non-trivial = all combinations with a usable connection (those are behaviour-checked) or a FrameMaxTooSmall refusal; distinct = grid index. Family 'ids' (seeded): channel_max from {{1,2,3,7}}, a program of automatic opens and closes that exhausts the id space, and up to 3 stray Channel.CloseOk frames from the server on ids above channel_max (tolerated by the client by design); oracle: no open_channel(None) returns an id outside 1..=channel_max and no Channel.Open is written on one; non-trivial = the id space was exhausted.", CM, FM, HB, grid_size())
    }
    fn level(&self) -> &'static str {
        "fault_enumeration"
    }
    fn exhaustive(&self, _thorough: bool) -> bool {
        true
    }
    fn plan(&self, thorough: bool, seed: u64) -> Vec<CaseSpec> {
        let n = grid_size();
        let reps = if thorough { 5 } else { 1 };
        let mut v = Vec::new();
        for r in 0..reps {
            for i in 0..n {
                v.push(CaseSpec { family: "grid".into(), seed: amiquip_simrt::choice::mix(seed, 15 + r, i as u64), params: vec![i as i64], choices: None });
            }
        }
        let mut ids = plan_random("C15", "ids", seed, if thorough { 40_000 } else { 2_400 });
        v.append(&mut ids);
        v
    }
    fn run_case(&self, spec: &CaseSpec, text: bool) -> CaseReport {
        if spec.family == "ids" {
            return run_ids(spec, text);
        }
        let mut cs = spec.stream();
        let gi = spec.params.first().copied().unwrap_or(0) as usize % grid_size();
        let ((c_cm, c_fm, c_hb), (s_cm, s_fm, s_hb)) = decode_grid(gi);
        let p0_16 = |v: u16| if v == 0 { u16::MAX } else { v };
        let p0_32 = |v: u32| if v == 0 { u32::MAX } else { v };
        let cm = p0_16(c_cm).min(p0_16(s_cm));
        let fm = p0_32(c_fm).min(p0_32(s_fm));
        let hb = c_hb.min(s_hb);
        let too_small = fm < 4096;
        let mut broker = BrokerCfg::default();
        broker.tune = (s_cm, s_fm, s_hb);
        if hb > 0 {
            broker.heartbeat_every_ns = Some(hb as u64 * SEC / 2);
        }
        let idle = if hb == 0 { 100 * SEC } else { 3 * hb as u64 * SEC };
        let body_len = if too_small {
            1
        } else if fm <= 131072 {
            3 * (fm as usize - 8) + 1
        } else {
            10_000
        };
        let opts = ConnOpts { channel_max: c_cm, frame_max: c_fm, heartbeat: c_hb, ..ConnOpts::default() };
        let mut owner_ops = Vec::new();
        if cm < u16::MAX {
            owner_ops.push(OwnerOp::OpenChannel { id: Some(cm + 1), keep: false });
        }
        owner_ops.push(OwnerOp::JoinWorkers);
        owner_ops.push(OwnerOp::SleepNs(idle));
        let threads = vec![ThreadPlan {
            chan_ids: vec![Some(cm)],
            ops: vec![(0, Op::Publish { exchange: "x".into(), rk: "rk".into(), mandatory: false, immediate: false, props: 2, body_len: if too_small { 1 } else { body_len }, via_exchange: false })],
            close_channels: true,
        }];
        let plan = SessionPlan { opts, tuning: Tuning::default(), threads, owner_ops, close: CloseKind::Close, join_before_close: true };
        let mut net = NetCfg::default();
        net.c2s_lat_min_ns = 10_000;
        net.c2s_lat_max_ns = 10_000;
        net.wr_short_permille = *pick(&mut cs, "wr_short", &[0u32, 300]);
        let mut sched = SchedCfg::default();
        sched.stick_pct = *pick(&mut cs, "stick", &[90u32, 50]);
        sched.hang_after_ns = 1_000_000 * SEC;
        let gen = Generated { plan, net, broker, sched, frame_max: fm.min(1 << 30) as usize };
        let (res, world) = run_generated(&gen, cs, text, |_| {});
        let mut rep = CaseReport::default();
        fill_common(&mut rep, &res, &world);
        rep.sample = serde_json::json!({"client": [c_cm as u64, c_fm as u64, c_hb as u64], "server": [s_cm as u64, s_fm as u64, s_hb as u64], "model_tune_ok": [cm as u64, fm as u64, hb as u64], "frame_max_too_small": too_small});
        for p in &res.run.panics {
            rep.violate("panic", format!("{}@{}", p.thread, p.location), format!("{} panicked: {}", p.thread, p.message));
        }
        if let Some((sig, detail)) = hang_sig(&res.run.outcome) {
            rep.violate("hang", sig, format!("client {:?} server {:?}: {}", (c_cm, c_fm, c_hb), (s_cm, s_fm, s_hb), detail));
            return rep;
        }
        if rep.inconclusive.is_some() {
            return rep;
        }
        let n = world.net.lock().unwrap();
        let frames = wire::split_stream(&n.c2s, false).map(|x| x.1).unwrap_or_default();
        let tune_ok = frames.iter().filter_map(wire::decode).find_map(|f| if let AMQPFrame::Method(0, AMQPClass::Connection(Cn::TuneOk(t))) = f { Some(t) } else { None });
        let open = res.hist.conn.iter().find_map(|c| if let ConnRec::Open { result, .. } = c { Some(result.clone()) } else { None });
        let ctx = format!("client (cm {}, fm {}, hb {}) server (cm {}, fm {}, hb {})", c_cm, c_fm, c_hb, s_cm, s_fm, s_hb);
        if too_small {
            let want = format!("FrameMaxTooSmall(4096,{})", fm);
            if open != Some(Err(want.clone())) {
                rep.violate("frame-max-floor", "not-refused", format!("{}: resulting frame_max {} < 4096 but open returned {:?}", ctx, fm, open));
                return rep;
            }
            if let Some(t) = tune_ok {
                rep.violate("frame-max-floor", "tune-ok-written", format!("{}: FrameMaxTooSmall, yet TuneOk {:?} was written", ctx, t));
                return rep;
            }
            rep.count("c15.frame_max_too_small", 1);
            rep.nontrivial = true;
            rep.distinct = gi as u64;
            return rep;
        }
        if open != Some(Ok(())) {
            rep.violate("open", "failed", format!("{}: open returned {:?}", ctx, open));
            return rep;
        }
        match &tune_ok {
            Some(t) if (t.channel_max, t.frame_max, t.heartbeat) == (cm, fm, hb) => {}
            other => {
                let which = match other {
                    Some(t) if t.channel_max != cm => "channel_max",
                    Some(t) if t.frame_max != fm => "frame_max",
                    Some(_) => "heartbeat",
                    None => "missing",
                };
                rep.violate("tune-ok", which, format!("{}: TuneOk on the wire {:?}, model ({}, {}, {})", ctx, other, cm, fm, hb));
                return rep;
            }
        }
        // obeyed: channel ids
        for c in &res.hist.conn {
            if let ConnRec::OpenChannel { requested: Some(id), result, .. } = c {
                if *id == cm && result != &Ok(cm) {
                    rep.violate("channel-max-obeyed", "max-id-refused", format!("{}: open_channel(Some({})) = {:?}", ctx, cm, result));
                    return rep;
                }
                if cm < u16::MAX && *id == cm + 1 && result != &Err(format!("UnavailableChannelId({})", cm + 1)) {
                    rep.violate("channel-max-obeyed", "id-above-max", format!("{}: open_channel(Some({})) = {:?}, channel_max is {}", ctx, cm + 1, result, cm));
                    return rep;
                }
            }
        }
        // obeyed: frame size
        publish_oracle(&mut rep, &n.c2s, &res.hist, fm.min(1 << 30) as usize);
        if !rep.violations.is_empty() {
            for v in rep.violations.iter_mut() {
                v.detail = format!("{}: {}", ctx, v.detail);
            }
            return rep;
        }
        // obeyed: heartbeat timing during the idle stretch
        let idle_from = res.hist.ops.iter().map(|o| o.ret_ns).max().unwrap_or(0);
        let close_invoke = res.hist.conn.iter().find_map(|c| if let ConnRec::Close { invoke_ns, result, .. } = c { Some((*invoke_ns, result.clone())) } else { None });
        let (idle_to, close_result) = close_invoke.unwrap_or((0, Ok(())));
        if close_result != Ok(()) {
            rep.violate("connection-died", format!("{:?}", close_result).chars().take(40).collect::<String>(), format!("{}: close returned {:?}", ctx, close_result));
            return rep;
        }
        let hb_frames = frames.iter().filter(|f| f.ty == 8).count();
        if hb == 0 {
            if hb_frames > 0 {
                rep.violate("heartbeat-obeyed", "sent-when-off", format!("{}: heartbeat 0 negotiated, {} heartbeat frames written in {} s", ctx, hb_frames, idle / SEC));
                return rep;
            }
        } else {
            let mut times: Vec<u64> = n.writes.iter().map(|w| w.time_ns).filter(|t| *t >= idle_from && *t <= idle_to).collect();
            times.insert(0, idle_from);
            times.push(idle_to);
            let max_gap = times.windows(2).map(|w| w[1] - w[0]).max().unwrap_or(0);
            if max_gap > hb as u64 * SEC + 300_000_000 {
                rep.violate("heartbeat-obeyed", "gap", format!("{}: negotiated heartbeat {} s but {:.3} s passed without a client->server byte", ctx, hb, max_gap as f64 / 1e9));
                return rep;
            }
            if hb_frames == 0 {
                rep.violate("heartbeat-obeyed", "none-sent", format!("{}: negotiated heartbeat {} s, idle for {} s, no heartbeat frame", ctx, hb, idle / SEC));
                return rep;
            }
        }
        rep.count("c15.behaviour_checked", 1);
        rep.nontrivial = true;
        rep.distinct = gi as u64;
        rep
    }
}

/// Family 'ids': a small negotiated channel_max, a program of automatic opens and closes that runs the id
/// space out more than once, and a server that strays: Channel.CloseOk frames on ids nobody uses, above
/// channel_max (tolerated by the client by design).  Whatever happens, no id above channel_max may be handed out
/// and no Channel.Open may be written on one.
fn run_ids(spec: &CaseSpec, text: bool) -> CaseReport {
    use amq_protocol::protocol::channel::{AMQPMethod as Ch, CloseOk};
    use crate::broker::{Action, Trigger};
    let mut cs = spec.stream();
    let cm = *pick(&mut cs, "cm", &[1u16, 2, 3, 7]);
    let (c_cm, s_cm) = match cs.choose("cm_side", 3) {
        0 => (cm, 0u16),
        1 => (0u16, cm),
        _ => (cm, cm),
    };
    let mut broker = BrokerCfg::default();
    broker.tune = (s_cm, 131072, 0);
    broker.think_max_ns = *pick(&mut cs, "think", &[0u64, 50_000]);
    let n_stray = cs.choose("n_stray", 4);
    let mut stray_ids = Vec::new();
    for _ in 0..n_stray {
        let id = *pick(&mut cs, "stray_id", &[cm + 1, cm + 2, 2 * cm + 3, 65535, 1000]);
        let mut f = Vec::new();
        wire::method(&mut f, id, &AMQPClass::Channel(Ch::CloseOk(CloseOk {})));
        let trig = if cs.choose("stray_when", 2) == 0 { Trigger::OnOpen } else { Trigger::AtTime(10_000_000) };
        broker.script.push((trig, Action::Raw { ch: 0, frames: vec![f] }));
        stray_ids.push(id);
    }
    let mut owner_ops = Vec::new();
    let n_ops = cs.choose("n_ops", 2 * cm as u32 + 6) as usize;
    let sleep_at = cs.choose("sleep_at", n_ops as u32 + 1) as usize;
    let mut kept = 0usize;
    for i in 0..n_ops {
        if i == sleep_at {
            owner_ops.push(OwnerOp::SleepNs(20_000_000));
        }
        if kept > 0 && cs.choose("op", 10) >= 7 {
            owner_ops.push(OwnerOp::CloseKept { nth: cs.choose("close_which", kept as u32) as usize });
        } else {
            owner_ops.push(OwnerOp::OpenChannel { id: None, keep: true });
            kept += 1;
        }
    }
    if sleep_at >= n_ops {
        owner_ops.push(OwnerOp::SleepNs(20_000_000));
    }
    for _ in 0..cm as usize + 2 {
        owner_ops.push(OwnerOp::OpenChannel { id: None, keep: true });
    }
    let opts = ConnOpts { channel_max: c_cm, ..ConnOpts::default() };
    let plan = SessionPlan { opts, tuning: Tuning::default(), threads: vec![], owner_ops, close: CloseKind::Close, join_before_close: true };
    let mut net = NetCfg::default();
    net.c2s_lat_min_ns = 1_000;
    net.c2s_lat_max_ns = *pick(&mut cs, "c2s_lat", &[1_000u64, 100_000]);
    let mut sched = SchedCfg::default();
    sched.stick_pct = *pick(&mut cs, "stick", &[90u32, 50]);
    sched.hang_after_ns = 100 * SEC;
    let gen = Generated { plan, net, broker, sched, frame_max: 131072 };
    let (res, world) = run_generated(&gen, cs, text, |_| {});
    let mut rep = CaseReport::default();
    fill_common(&mut rep, &res, &world);
    rep.sample = serde_json::json!({"family": "ids", "channel_max": cm, "client_option": c_cm, "server_tune": s_cm, "stray_close_ok_on": stray_ids});
    for p in &res.run.panics {
        rep.violate("panic", format!("{}@{}", p.thread, p.location), format!("{} panicked: {}", p.thread, p.message));
    }
    if let Some((sig, detail)) = hang_sig(&res.run.outcome) {
        rep.violate("hang", sig, format!("channel_max {} stray CloseOk on {:?}: {}", cm, stray_ids, detail));
        return rep;
    }
    if rep.inconclusive.is_some() {
        return rep;
    }
    let ctx = format!("channel_max {} (client option {}, server {}), stray Channel.CloseOk on {:?}", cm, c_cm, s_cm, stray_ids);
    let mut opened = 0u64;
    let mut refused = 0u64;
    for c in &res.hist.conn {
        if let ConnRec::OpenChannel { requested: None, result, .. } = c {
            match result {
                Ok(id) if *id == 0 || *id > cm => {
                    rep.violate("channel-max-obeyed", "auto-id-above-max", format!("{}: open_channel(None) returned id {}", ctx, id));
                    return rep;
                }
                Ok(_) => opened += 1,
                Err(_) => refused += 1,
            }
        }
    }
    let n = world.net.lock().unwrap();
    if let Ok(per) = crate::oracles::decode_c2s(&n.c2s) {
        for (ch, frames) in &per {
            for (_, _, f) in frames {
                if let AMQPFrame::Method(_, AMQPClass::Channel(Ch::Open(_))) = f {
                    if *ch == 0 || *ch > cm {
                        rep.violate("channel-max-obeyed", "open-on-wire-above-max", format!("{}: Channel.Open written on channel {}", ctx, ch));
                        return rep;
                    }
                }
            }
        }
    }
    rep.count("c15.ids_runs", 1);
    rep.count("c15.ids_stray_close_ok", stray_ids.len() as u64);
    rep.count("c15.ids_refused_opens", refused);
    rep.nontrivial = opened >= cm as u64 && refused > 0;
    rep.distinct = amiquip_simrt::choice::mix(cm as u64, stray_ids.iter().fold(7u64, |h, x| h.wrapping_mul(31).wrapping_add(*x as u64)), opened * 64 + refused) | (1 << 62);
    rep
}
