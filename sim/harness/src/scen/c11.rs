//! C11 — a consumer ends with exactly one terminal message and nothing after it.
use super::*;
use crate::broker::{Broker, Message, SentKind};
use crate::client::*;
use crate::lifecycle::*;
use crate::oracles::{decode_c2s, msg_eq};
use amq_protocol::frame::AMQPFrame;
use amq_protocol::protocol::basic::AMQPMethod as B;
use amq_protocol::protocol::channel::AMQPMethod as Ch;
use amq_protocol::protocol::AMQPClass;
use std::collections::BTreeMap;

pub struct C11;

/// The one true terminal of each consumer and the deliveries before it, by folding
/// over the server->client frame order.
pub fn fold_terminals<'a>(broker: &'a Broker) -> BTreeMap<(u16, String), (Vec<&'a Message>, Option<Terminal>)> {
    let mut m: BTreeMap<(u16, String), (Vec<&Message>, Option<Terminal>)> = BTreeMap::new();
    for s in &broker.sent {
        match &s.kind {
            SentKind::Reply { ch, method: AMQPClass::Basic(B::ConsumeOk(ok)), .. } => {
                m.insert((*ch, ok.consumer_tag.clone()), (Vec::new(), None));
            }
            SentKind::Deliver { ch, tag, msg } => {
                if let Some(e) = m.get_mut(&(*ch, tag.clone())) {
                    if e.1.is_none() {
                        e.0.push(msg);
                    }
                }
            }
            SentKind::Reply { ch, method: AMQPClass::Basic(B::CancelOk(ok)), .. } => {
                if let Some(e) = m.get_mut(&(*ch, ok.consumer_tag.clone())) {
                    if e.1.is_none() {
                        e.1 = Some(Terminal::ClientCancelled);
                    }
                }
            }
            SentKind::ServerCancel { ch, tag, .. } => {
                if let Some(e) = m.get_mut(&(*ch, tag.clone())) {
                    if e.1.is_none() {
                        e.1 = Some(Terminal::ServerCancelled);
                    }
                }
            }
            SentKind::ChannelClose { ch, code, text } => {
                for (k, e) in m.iter_mut() {
                    if k.0 == *ch && e.1.is_none() {
                        e.1 = Some(Terminal::ServerClosedChannel(format!("ServerClosedChannel({},{},{})", ch, code, text)));
                    }
                }
            }
            SentKind::Reply { ch, method: AMQPClass::Channel(Ch::CloseOk(_)), .. } => {
                for (k, e) in m.iter_mut() {
                    if k.0 == *ch && e.1.is_none() {
                        e.1 = Some(Terminal::ClientClosedChannel);
                    }
                }
            }
            SentKind::ConnectionClose { code, text } => {
                for (_, e) in m.iter_mut() {
                    if e.1.is_none() {
                        e.1 = Some(Terminal::ServerClosedConnection(format!("ServerClosedConnection({},{})", code, text)));
                    }
                }
            }
            SentKind::ConnectionCloseOk => {
                for (_, e) in m.iter_mut() {
                    if e.1.is_none() {
                        e.1 = Some(Terminal::ClientClosedConnection);
                    }
                }
            }
            _ => {}
        }
    }
    m
}

/// Compare every consumer that was drained to disconnection with the fold.
pub fn terminal_oracle(rep: &mut CaseReport, hist: &History, broker: &Broker, c2s: &[u8]) {
    let fold = fold_terminals(broker);
    let mut threads: BTreeMap<usize, Vec<&OpRec>> = BTreeMap::new();
    for o in &hist.ops {
        threads.entry(o.thread).or_default().push(o);
    }
    let mut kinds_seen = 0u64;
    for (_t, ops) in &threads {
        let mut tags: Vec<(u16, String)> = Vec::new();
        for o in ops {
            if let Op::Consume { .. } = &o.op {
                match &o.result {
                    OpResult::Consumer { tag } => tags.push((o.ch_id, tag.clone())),
                    _ => tags.push((o.ch_id, String::new())),
                }
            }
            if let (Op::Drain { slot, max: None, .. }, OpResult::Drained { msgs, terminals, disconnected, after_terminal }) = (&o.op, &o.result) {
                if *slot >= tags.len() {
                    continue;
                }
                let key = tags[*slot].clone();
                let (want_msgs, want_term) = match fold.get(&key) {
                    Some(x) => x,
                    None => continue,
                };
                rep.count("c11.consumers_checked", 1);
                if !*disconnected {
                    rep.violate("not-disconnected", "open", format!("consumer {:?}: queue still connected after the terminal {:?}", key, terminals));
                    return;
                }
                if terminals.len() != 1 {
                    let kind = if terminals.is_empty() { "no-terminal" } else { "several-terminals" };
                    rep.violate("terminal-count", kind, format!("consumer {:?}: {} terminal messages {:?} (the stream's terminal is {:?}); {} deliveries received", key, terminals.len(), terminals, want_term, msgs.len()));
                    return;
                }
                if *after_terminal != 0 {
                    rep.violate("after-terminal", "message-after-terminal", format!("consumer {:?}: {} messages after the terminal {:?}", key, after_terminal, terminals));
                    return;
                }
                match want_term {
                    Some(w) => {
                        if &terminals[0] != w {
                            rep.violate("terminal-kind", format!("{:?}", w).split('(').next().unwrap_or("").to_string(), format!("consumer {:?}: terminal {:?}, but the first ending event in the server->client stream makes it {:?}", key, terminals[0], w));
                            return;
                        }
                        rep.count(&format!("c11.terminal.{}", format!("{:?}", w).split('(').next().unwrap_or("")), 1);
                        kinds_seen += 1;
                    }
                    None => {
                        rep.violate("terminal-kind", "unexplained", format!("consumer {:?}: terminal {:?} but the server never sent anything that ends it", key, terminals[0]));
                        return;
                    }
                }
                if msgs.len() != want_msgs.len() {
                    rep.violate("deliveries-before-terminal", if msgs.len() < want_msgs.len() { "lost" } else { "extra" }, format!("consumer {:?}: {} deliveries received, {} were sent before its terminal {:?}", key, msgs.len(), want_msgs.len(), want_term));
                    return;
                }
                for (i, (g, m)) in msgs.iter().zip(want_msgs.iter()).enumerate() {
                    if !msg_eq(g, m) {
                        rep.violate("deliveries-before-terminal", "content-or-order", format!("consumer {:?} delivery #{}: got tag {}, sent tag {}", key, i, g.delivery_tag, m.delivery_tag));
                        return;
                    }
                }
            }
        }
    }
    let _ = kinds_seen;
    // wire side: at most one Basic.Cancel per tag from the client; CancelOk per server cancel iff !nowait
    if let Ok(per) = decode_c2s(c2s) {
        let mut cancels: BTreeMap<(u16, String), u32> = BTreeMap::new();
        let mut cancel_oks: BTreeMap<(u16, String), u32> = BTreeMap::new();
        for (ch, frames) in &per {
            for (_, _, f) in frames {
                match f {
                    AMQPFrame::Method(_, AMQPClass::Basic(B::Cancel(c))) => *cancels.entry((*ch, c.consumer_tag.clone())).or_default() += 1,
                    AMQPFrame::Method(_, AMQPClass::Basic(B::CancelOk(c))) => *cancel_oks.entry((*ch, c.consumer_tag.clone())).or_default() += 1,
                    _ => {}
                }
            }
        }
        for (k, n) in &cancels {
            if *n > 1 {
                rep.violate("double-cancel", "twice", format!("client sent Basic.Cancel {} times for consumer {:?}", n, k));
                return;
            }
        }
        // server cancels that the client has certainly processed: those followed on the wire by a
        // later frame the client reacted to are hard to pin down; use: the consumer was drained and
        // ended ServerCancelled => the Cancel was processed => CancelOk must exist iff !nowait
        for s in &broker.sent {
            if let SentKind::ServerCancel { ch, tag, nowait } = &s.kind {
                let key = (*ch, tag.clone());
                let processed = fold.get(&key).map(|e| e.1 == Some(Terminal::ServerCancelled)).unwrap_or(false) && drained_with(hist, &key, &Terminal::ServerCancelled);
                let oks = cancel_oks.get(&key).copied().unwrap_or(0);
                if *nowait && oks > 0 {
                    rep.violate("server-cancel-reply", "cancelok-for-nowait", format!("server cancel of {:?} was nowait, client sent {} CancelOk", key, oks));
                    return;
                }
                if !*nowait && processed && oks != 1 && !connection_ended_abnormally(hist) && !close_began_before_drain_end(hist, &key) {
                    rep.violate("server-cancel-reply", "cancelok-missing", format!("server cancel of {:?} (not nowait) was processed, client sent {} CancelOk", key, oks));
                    return;
                }
                if processed {
                    rep.count("c11.server_cancels_checked", 1);
                }
                // ... and promptly: when the thread has seen ServerCancelled on the consumer's queue, the CancelOk
                // is already queued ahead of anything that thread submits afterwards; in these sessions the only
                // thing it submits on that channel after the drain is the final Channel.Close
                // (only when that Close was issued after the drain had returned: a channel closed with its consumers
                // still attached races with the server's cancel and may legitimately overtake the reply)
                let drain_ret = drain_ret_stamp(hist, &key);
                let close_invoke = hist.ops.iter().filter(|o| o.ch_id == *ch && matches!(o.op, Op::CloseChannel)).map(|o| o.invoke).min();
                let close_after_drain = matches!((drain_ret, close_invoke), (Some(r), Some(i)) if i >= r);
                if !*nowait && processed && oks == 1 && close_after_drain {
                    if let Some(frames) = per.get(ch) {
                        let ok_off = frames.iter().find_map(|(off, _, f)| match f {
                            AMQPFrame::Method(_, AMQPClass::Basic(B::CancelOk(c))) if &c.consumer_tag == tag => Some(*off),
                            _ => None,
                        });
                        // the first frame the thread itself put on that channel after the drain: the Basic.Cancel of
                        // the consumer's final drop (a server-cancelled consumer still cancels when dropped), or the
                        // channel's Close
                        let close_off = frames.iter().find_map(|(off, _, f)| match f {
                            AMQPFrame::Method(_, AMQPClass::Channel(Ch::Close(_))) => Some(*off),
                            AMQPFrame::Method(_, AMQPClass::Basic(B::Cancel(c))) if &c.consumer_tag == tag => Some(*off),
                            _ => None,
                        });
                        if let (Some(a), Some(b)) = (ok_off, close_off) {
                            rep.count("c11.cancelok_before_close_checked", 1);
                            if b < a {
                                rep.violate("server-cancel-reply", "cancelok-late", format!("server cancel of {:?} (not nowait): the consumer saw ServerCancelled and was drained, yet the CancelOk (offset {}) was only written behind a frame the thread submitted afterwards (offset {})", key, a, b));
                                return;
                            }
                        }
                    }
                }
            }
        }
    }
}

/// return stamp of the drain (to disconnection) of the consumer `key`
fn drain_ret_stamp(hist: &History, key: &(u16, String)) -> Option<u64> {
    let mut threads: BTreeMap<usize, Vec<&OpRec>> = BTreeMap::new();
    for o in &hist.ops {
        threads.entry(o.thread).or_default().push(o);
    }
    for (_t, ops) in threads {
        let mut tags: Vec<(u16, String)> = Vec::new();
        for o in ops {
            if let Op::Consume { .. } = &o.op {
                match &o.result {
                    OpResult::Consumer { tag } => tags.push((o.ch_id, tag.clone())),
                    _ => tags.push((o.ch_id, String::new())),
                }
            }
            if let (Op::Drain { slot, max: None, .. }, OpResult::Drained { .. }) = (&o.op, &o.result) {
                if tags.get(*slot) == Some(key) {
                    return Some(o.ret);
                }
            }
        }
    }
    None
}

fn drained_with(hist: &History, key: &(u16, String), t: &Terminal) -> bool {
    let mut threads: BTreeMap<usize, Vec<&OpRec>> = BTreeMap::new();
    for o in &hist.ops {
        threads.entry(o.thread).or_default().push(o);
    }
    for (_t, ops) in threads {
        let mut tags: Vec<(u16, String)> = Vec::new();
        for o in ops {
            if let Op::Consume { .. } = &o.op {
                match &o.result {
                    OpResult::Consumer { tag } => tags.push((o.ch_id, tag.clone())),
                    _ => tags.push((o.ch_id, String::new())),
                }
            }
            if let (Op::Drain { slot, .. }, OpResult::Drained { terminals, .. }) = (&o.op, &o.result) {
                if tags.get(*slot) == Some(key) && terminals.first() == Some(t) {
                    return true;
                }
            }
        }
    }
    false
}

/// the client started closing the connection before this consumer's drain returned: replies
/// queued after that point are legitimately never written
fn close_began_before_drain_end(hist: &History, key: &(u16, String)) -> bool {
    let close_invoke = hist.conn.iter().filter_map(|c| if let ConnRec::Close { invoke, .. } = c { Some(*invoke) } else { None }).min();
    let close_invoke = match close_invoke {
        Some(c) => c,
        None => return false,
    };
    let mut threads: BTreeMap<usize, Vec<&OpRec>> = BTreeMap::new();
    for o in &hist.ops {
        threads.entry(o.thread).or_default().push(o);
    }
    for (_t, ops) in threads {
        let mut tags: Vec<(u16, String)> = Vec::new();
        for o in ops {
            if let Op::Consume { .. } = &o.op {
                match &o.result {
                    OpResult::Consumer { tag } => tags.push((o.ch_id, tag.clone())),
                    _ => tags.push((o.ch_id, String::new())),
                }
            }
            if let Op::Drain { slot, .. } = &o.op {
                if tags.get(*slot) == Some(key) {
                    return close_invoke < o.ret;
                }
            }
        }
    }
    true
}

fn connection_ended_abnormally(hist: &History) -> bool {
    hist.conn.iter().any(|c| matches!(c, ConnRec::Close { result: Err(_), .. }))
}

impl Scenario for C11 {
    fn property(&self) -> &'static str {
        "C11"
    }
    fn rule(&self) -> String {
        "Seeded lifecycle sessions: 1-3 worker threads x 1-2 channels x 0-2 consumers per channel with 0-5 deliveries each, busy RPC/publish work in between; every consumer is ended by one of: client cancel, client cancel twice, drop, server cancel (nowait or not), client channel close with the consumer attached, server channel close, early client connection close, server connection close — events of different kinds race in the same run. Each consumer queue is drained to disconnection. Oracle: fold over the server->client frame order gives the one true terminal and the deliveries before it; received must be exactly those deliveries, then exactly that terminal, then disconnected; <=1 Basic.Cancel per tag from the client; server Cancel answered with CancelOk iff not nowait. Non-trivial = >=2 different terminal kinds observed in the run or a delivery was sent between a client cancel request and its CancelOk; distinct = schedule trace hash.".to_string()
    }
    fn plan(&self, thorough: bool, seed: u64) -> Vec<CaseSpec> {
        plan_random("C11", "lifecycle", seed, if thorough { 200_000 } else { 10_000 })
    }
    fn run_case(&self, spec: &CaseSpec, text: bool) -> CaseReport {
        let mut cs = spec.stream();
        let lc = LifeCfg {
            consumer_ends: vec![ConsumerEnd::ClientCancel, ConsumerEnd::ClientCancelTwice, ConsumerEnd::Drop, ConsumerEnd::DropWhole, ConsumerEnd::ServerCancel { nowait: false }, ConsumerEnd::Inherit, ConsumerEnd::Inherit],
            channel_ends: vec![ChannelEnd::Normal, ChannelEnd::Normal, ChannelEnd::ClientCloseWithConsumers, ChannelEnd::ServerClose { code: 0, text: String::new() }],
            conn_ends: vec![ConnEnd::Normal, ConnEnd::Normal, ConnEnd::ClientCloseEarly { after_ns: 0 }, ConnEnd::ServerClose { code: 0, text: String::new() }],
            max_threads: 3,
            busy_ops: 10,
            write_faults: false,
            read_faults: true,
            heartbeat: 0,
            explicit_drop_after_server_cancel: false,
            empty_publish_before_server_cancel: true,
        };
        let life = gen_life(&mut cs, &lc);
        let (res, world) = run_generated(&life.gen, cs, text, |_| {});
        let mut rep = CaseReport::default();
        fill_common(&mut rep, &res, &world);
        rep.sample = serde_json::json!({"plan": plan_summary(&life.gen), "conn_end": format!("{:?}", life.conn_end), "channels": life.chans.iter().map(|c| format!("{:?}", c)).collect::<Vec<_>>(), "consumers": life.consumers.iter().map(|c| format!("{:?}", c)).collect::<Vec<_>>(), "script": life.gen.broker.script.iter().map(|s| format!("{:?}", s)).collect::<Vec<_>>()});
        for p in &res.run.panics {
            rep.violate("panic", format!("{}@{}", p.thread, p.location), format!("{} panicked: {}", p.thread, p.message));
        }
        if let Some((sig, detail)) = hang_sig(&res.run.outcome) {
            rep.violate("hang", sig, format!("a consumer queue never terminated or a call never returned: {}", detail));
            return rep;
        }
        if rep.inconclusive.is_some() {
            return rep;
        }
        let n = world.net.lock().unwrap();
        terminal_oracle(&mut rep, &res.hist, &world.broker, &n.c2s);
        let kinds = rep.counters.keys().filter(|k| k.starts_with("c11.terminal.")).count();
        rep.nontrivial = kinds >= 2;
        rep.distinct = rep.trace_hash;
        rep
    }
}
