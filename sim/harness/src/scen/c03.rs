//! C03 — inbound messages are reassembled and delivered exactly once, intact, in order.
use super::*;
use crate::gen::*;
use crate::oracles::{inbound_oracle, returns_oracle};

pub struct C03;

impl Scenario for C03 {
    fn property(&self) -> &'static str {
        "C03"
    }
    fn rule(&self) -> String {
        "Seeded sessions: 1-3 threads x 1-3 channels with up to 4 consumers per thread (some never drained), gets, return listeners registered before the first publish. The broker generates a valid history: 0-6 deliveries per consumer, bodies 0..3P+1 bytes split arbitrarily (whole, 1-byte frames, random, tiny pieces), channels interleaved at frame boundaries by the output mux, the byte stream segmented (whole / MTU / <=64 B / 1 byte / random) with gaps, short reads and spurious wake-ups. Oracle: per consumer received == sent (all fields, order), each get == the content generated for that get, return listener == returns sent (prefix rule after a round trip). A hang while a lazy consumer holds messages is a violation. Non-trivial = >=1 content body arrived in >=2 body frames AND the mux interleaved another channel's frame or a segment boundary fell inside a frame (>=1 would-block read); distinct = schedule trace hash. Family 'stalled-writes': the peer stops reading for 20-60 simulated seconds while one thread keeps publishing (the client's outbound buffer stays non-empty and every write would block); during that time the broker sends deliveries to a consumer of another thread and channel, which blocks on its queue: it must have them long before the stall ends (outbound congestion delays no inbound message), and in the end everything is there once, in order.".to_string()
    }
    fn plan(&self, thorough: bool, seed: u64) -> Vec<CaseSpec> {
        let mut v = plan_random("C03", "inbound", seed, if thorough { 100_000 } else { 5_000 });
        // a consumer that never drains while tens of thousands of deliveries pile up for it
        for (i, s) in seeds_for("C03", "flood", seed, if thorough { 32 } else { 4 }).into_iter().enumerate() {
            v.push(CaseSpec { family: "flood".into(), seed: s, params: vec![i as i64], choices: None });
        }
        v.extend(plan_random("C03", "stalled-writes", seed, if thorough { 8_000 } else { 600 }));
        v
    }
    fn run_case(&self, spec: &CaseSpec, text: bool) -> CaseReport {
        if spec.family == "stalled-writes" {
            return run_stalled_writes(spec, text);
        }
        if spec.family == "flood" {
            return run_flood(spec, text);
        }
        let mut cs = spec.stream();
        let mut g = GenCfg::default();
        g.max_threads = 3;
        g.max_ops = 30;
        g.write_faults = false;
        g.returns_protocol = true;
        g.drain_all = cs.choose("drain_all", 4) != 0;
        g.body_factor = 3;
        // (0, 131072): body frames of up to 131064 bytes in the sessions with very large bodies
        g.frame_max_choices = vec![(0, 4096), (4096, 131072), (0, 8192), (8192, 4096), (0, 131072)];
        let mut gen = gen_session(&mut cs, &g);
        // one session in eight carries very large bodies (around 64 KiB, 1 MiB and 2 MiB)
        let big = cs.choose("big_bodies", 8) == 0;
        if big {
            gen.broker.body_max = *pick(&mut cs, "big_body_max", &[65_536usize, (1 << 20) - 1, 1 << 20, (1 << 20) + 1, (2 << 20) + 5]);
            gen.broker.seg_mode = pick(&mut cs, "big_seg", &[crate::broker::SegMode::Whole, crate::broker::SegMode::Mtu]).clone();
            gen.broker.deliveries_max = 2;
            gen.net.rd_short_permille = 0;
            // megabytes in MTU-sized segments take a few million scheduler steps
            gen.sched.step_cap = 6_000_000;
        }
        gen.sched.step_cap = gen.sched.step_cap.max(1_500_000);
        let (res, world) = run_generated(&gen, cs, text, |_| {});
        let mut rep = CaseReport::default();
        fill_common(&mut rep, &res, &world);
        rep.sample = plan_summary(&gen);
        for p in &res.run.panics {
            rep.violate("panic", format!("{}@{}", p.thread, p.location), format!("{} panicked: {}", p.thread, p.message));
        }
        if let Some((sig, detail)) = hang_sig(&res.run.outcome) {
            rep.violate("hang", sig, format!("valid server history, yet somebody waits forever (a non-draining consumer must delay nobody): {}", detail));
            return rep;
        }
        if rep.inconclusive.is_some() {
            return rep;
        }
        inbound_oracle(&mut rep, &res.hist, &world.broker);
        if rep.violations.is_empty() {
            returns_oracle(&mut rep, &res.hist, &world.broker);
        }
        let multi = world.broker.stats.body_frames_out >= 2;
        let n = world.net.lock().unwrap();
        rep.nontrivial = multi && (world.broker.stats.mux_interleaves > 0 || n.stats.would_block_reads > 3);
        rep.count("probe.multi_frame_content", multi as u64);
        rep.count("probe.big_body_sessions", big as u64);
        rep.count("probe.big_body_sessions_with_frames_up_to_128k", (big && gen.frame_max > 100_000) as u64);
        rep.distinct = rep.trace_hash;
        rep
    }
}

/// One consumer is flooded and never reads; another channel of the same connection keeps working; in the end
/// every delivery is there, once, in order.
fn run_flood(spec: &CaseSpec, text: bool) -> CaseReport {
    use crate::broker::BrokerCfg;
    use crate::client::*;
    use crate::session::*;
    let mut cs = spec.stream();
    let n = [70_000u32, 1_000, 70_000, 140_000][spec.params.first().copied().unwrap_or(0) as usize % 4];
    let mut broker = BrokerCfg::default();
    broker.deliveries_for_queue = vec![("q.flood".to_string(), n), ("q.other".to_string(), 3)];
    broker.deliveries_min = 0;
    broker.deliveries_max = 0;
    broker.body_max = 8;
    broker.fixed_consumer_tags = true;
    broker.seg_mode = pick(&mut cs, "flood_seg", &[crate::broker::SegMode::Whole, crate::broker::SegMode::Mtu]).clone();
    broker.mux_burst_max = *pick(&mut cs, "flood_burst", &[1u32, 8, 64]);
    broker.s2c_lat_min_ns = 1_000;
    broker.s2c_lat_max_ns = 1_000;
    let mut net = crate::stream::NetCfg::default();
    net.c2s_lat_min_ns = 1_000;
    net.c2s_lat_max_ns = 1_000;
    let qos = |c: u16| Op::Qos { size: 0, count: c, global: false };
    let consume = |q: &str| Op::Consume { queue: q.to_string(), no_local: false, no_ack: true, exclusive: false, args: 0, via_queue: false };
    let ops = vec![
        (0usize, consume("q.flood")),
        (1, consume("q.other")),
        (1, qos(1)),
        // the reply queues up behind the flood on that channel: when it is here, everything has been received
        (0, qos(2)),
        (1, qos(3)),
        (0, Op::Cancel { slot: 0 }),
        (1, Op::Cancel { slot: 1 }),
        (0, Op::Drain { slot: 0, max: None, acks: vec![], via_consumer: false }),
        (1, Op::Drain { slot: 1, max: None, acks: vec![], via_consumer: false }),
    ];
    let threads = vec![ThreadPlan { chan_ids: vec![Some(1), Some(2)], ops, close_channels: true }];
    let plan = SessionPlan { opts: ConnOpts::default(), tuning: Tuning::default(), threads, owner_ops: vec![], close: CloseKind::Close, join_before_close: true };
    let mut sched = amiquip_simrt::SchedCfg::default();
    sched.stick_pct = *pick(&mut cs, "stick", &[90u32, 50]);
    crate::gen::gen_pct(&mut cs, &mut sched, 4);
    sched.step_cap = 60_000_000;
    sched.hang_after_ns = 600_000_000_000;
    let gen = Generated { plan, net, broker, sched, frame_max: 131072 };
    let (res, world) = run_generated(&gen, cs, text, |_| {});
    let mut rep = CaseReport::default();
    fill_common(&mut rep, &res, &world);
    rep.sample = serde_json::json!({"family": "flood", "deliveries_to_the_idle_consumer": n});
    rep.count("c03.flood_sessions", 1);
    for p in &res.run.panics {
        rep.violate("panic", format!("{}@{}", p.thread, p.location), format!("{} panicked: {}", p.thread, p.message));
    }
    if let Some((sig, detail)) = hang_sig(&res.run.outcome) {
        rep.violate("hang", sig, format!("{} deliveries waiting for a consumer that does not read: somebody waits forever: {}", n, detail));
        return rep;
    }
    if rep.inconclusive.is_some() {
        return rep;
    }
    for o in &res.hist.ops {
        if let OpResult::Err(e) = &o.result {
            rep.violate("flood-disturbed", "call-failed", format!("{} deliveries waiting for a consumer that does not read: {} failed with {}", n, crate::expect::short_op(&o.op), e));
            return rep;
        }
    }
    inbound_oracle(&mut rep, &res.hist, &world.broker);
    rep.nontrivial = true;
    rep.distinct = rep.trace_hash;
    rep
}


/// Outbound congestion must not delay inbound messages: while the transport refuses every write (the peer has
/// stopped reading) and a publisher keeps the outbound buffer full, deliveries for a consumer on another channel
/// keep arriving and must reach it during the stall, not after it.
fn run_stalled_writes(spec: &CaseSpec, text: bool) -> CaseReport {
    use crate::broker::{Action, BrokerCfg, Trigger};
    use crate::world::call_in;
    use crate::client::*;
    use crate::session::*;
    const MS: u64 = 1_000_000;
    let mut cs = spec.stream();
    let stall_from = 3 * MS + cs.choose("stall_from_us", 2000) as u64 * 1000;
    let stall_len = (20_000 + cs.choose("stall_ms", 40_000) as u64) * MS;
    let n_batches = 1 + cs.choose("n_batches", 3);
    let per_batch = 1 + cs.choose("per_batch", 3);
    let mut broker = BrokerCfg::default();
    broker.deliveries_min = 0;
    broker.deliveries_max = 0;
    broker.deliveries_for_queue = vec![("q.stalled".to_string(), 0)];
    broker.body_max = *pick(&mut cs, "body_max", &[8usize, 3000, 10_000]);
    broker.fixed_consumer_tags = true;
    broker.seg_mode = pick(&mut cs, "seg", &[crate::broker::SegMode::Whole, crate::broker::SegMode::Mtu, crate::broker::SegMode::Random]).clone();
    broker.s2c_lat_min_ns = 1_000;
    broker.s2c_lat_max_ns = *pick(&mut cs, "s2c_lat", &[1_000u64, 200_000]);
    let mut last_batch_at = 0u64;
    for b in 0..n_batches {
        // well inside the stall: at least 1 s after it began, at least 10 s before it ends
        let at = stall_from + 1_000 * MS + (b as u64) * 2_000 * MS + cs.choose("batch_jitter_ms", 1500) as u64 * MS;
        last_batch_at = last_batch_at.max(at);
        broker.script.push((Trigger::AtTime(at), Action::DeliverMore { ch: 1, nth_consumer: 0, count: per_batch }));
    }
    let total = (n_batches * per_batch) as usize;
    let mut net = crate::stream::NetCfg::default();
    net.c2s_lat_min_ns = 1_000;
    net.c2s_lat_max_ns = 1_000;
    net.wr_short_permille = *pick(&mut cs, "wr_short", &[0u32, 300]);
    let consume = Op::Consume { queue: "q.stalled".to_string(), no_local: false, no_ack: true, exclusive: false, args: 0, via_queue: false };
    let consumer_ops = vec![(0usize, consume), (0, Op::Drain { slot: 0, max: Some(total), acks: vec![], via_consumer: false }), (0, Op::Cancel { slot: 0 }), (0, Op::Drain { slot: 0, max: None, acks: vec![], via_consumer: false })];
    let n_pub = 30 + cs.choose("n_publishes", 200) as usize;
    let plen = *pick(&mut cs, "publish_len", &[100usize, 3000, 9000]);
    let mut pub_ops = Vec::new();
    // the publisher starts shortly before the stall so that the buffer is non-empty when it begins
    pub_ops.push((0usize, Op::Qos { size: 0, count: 1, global: false }));
    pub_ops.push((0usize, Op::Gate(1)));
    for i in 0..n_pub {
        pub_ops.push((0usize, Op::Publish { exchange: "".into(), rk: format!("p{}", i), mandatory: false, immediate: false, props: 0, body_len: plen, via_exchange: false }));
    }
    let threads = vec![
        ThreadPlan { chan_ids: vec![Some(1)], ops: consumer_ops, close_channels: true },
        ThreadPlan { chan_ids: vec![Some(2)], ops: pub_ops, close_channels: true },
    ];
    let tuning = Tuning { bound: *pick(&mut cs, "bound", &[16usize, 1, 2]), high: *pick(&mut cs, "high", &[16usize << 20, 8000]), low: 0 };
    let plan = SessionPlan { opts: ConnOpts { heartbeat: 0, ..ConnOpts::default() }, tuning, threads, owner_ops: vec![], close: CloseKind::Close, join_before_close: true };
    let mut sched = amiquip_simrt::SchedCfg::default();
    sched.stick_pct = *pick(&mut cs, "stick", &[90u32, 50, 0]);
    crate::gen::gen_pct(&mut cs, &mut sched, 4);
    sched.step_cap = 3_000_000;
    sched.hang_after_ns = 600_000_000_000;
    let gen = Generated { plan, net, broker, sched, frame_max: 131072 };
    let (a, b) = (stall_from, stall_from + stall_len);
    let gate_at = stall_from - 100_000 + cs.choose("gate_offset_us", 400) as u64 * 1000;
    let (res, world) = run_generated(&gen, cs, text, move |_| {
        call_in(a, |w| w.set_stall(true));
        call_in(b, |w| w.set_stall(false));
        // the publisher begins a moment before, at, or a moment after the peer stops reading
        call_in(gate_at, |_| amiquip_simrt::gate_open(1));
    });
    let mut rep = CaseReport::default();
    fill_common(&mut rep, &res, &world);
    rep.sample = serde_json::json!({"family": "stalled-writes", "stall_from_ms": stall_from / MS, "stall_len_ms": stall_len / MS, "deliveries_during_stall": total, "publishes": n_pub, "publish_len": plen});
    for p in &res.run.panics {
        rep.violate("panic", format!("{}@{}", p.thread, p.location), format!("{} panicked: {}", p.thread, p.message));
    }
    if let Some((sig, detail)) = hang_sig(&res.run.outcome) {
        rep.violate("hang", sig, format!("write stall of {} ms: somebody waits forever: {}", stall_len / MS, detail));
        return rep;
    }
    if rep.inconclusive.is_some() {
        return rep;
    }
    for o in &res.hist.ops {
        if let OpResult::Err(e) = &o.result {
            rep.violate("stall-disturbed", "call-failed", format!("{} failed with {}", crate::expect::short_op(&o.op), e));
            return rep;
        }
    }
    // the consumer's blocking read of all `total` deliveries
    let got_at = res.hist.ops.iter().find_map(|o| match (&o.op, &o.result) {
        (Op::Drain { max: Some(_), .. }, OpResult::Drained { msgs, .. }) if o.thread == 1 => Some((o.ret_ns, msgs.len())),
        _ => None,
    });
    // anything published while the peer was not reading sat in the client's outbound buffer
    let backlog = res.hist.ops.iter().any(|o| matches!(o.op, Op::Publish { .. }) && o.ret_ns > a && o.ret_ns < b);
    match got_at {
        Some((t, k)) if k == total => {
            // every delivery was on the wire by last_batch_at + latency; allow a generous second for the client
            let limit = last_batch_at + 1_000 * MS;
            rep.count("c03.stalled_writes_checked", 1);
            rep.count("c03.stalled_writes_with_backlog", backlog as u64);
            if t > limit && t >= b {
                rep.violate("inbound-delayed", "by-outbound-backlog", format!("the peer stopped reading from {} ms to {} ms while a thread kept publishing; {} deliveries for a consumer on another channel were sent by {} ms but the consumer had them only at {} ms, after the stall ended", a / MS, b / MS, total, last_batch_at / MS, t / MS));
                return rep;
            }
            if t > limit {
                rep.violate("inbound-delayed", "late", format!("{} deliveries sent by {} ms reached the consumer at {} ms (write stall from {} to {} ms)", total, last_batch_at / MS, t / MS, a / MS, b / MS));
                return rep;
            }
        }
        other => {
            rep.count("c03.stalled_writes_unjudged", 1);
            let _ = other;
        }
    }
    // everything sent to the consumer is there, once, in order (both reads of its queue together)
    let mut got: Vec<&GotMsg> = Vec::new();
    for o in res.hist.ops.iter().filter(|o| o.thread == 1) {
        if let OpResult::Drained { msgs, .. } = &o.result {
            got.extend(msgs.iter());
        }
    }
    let sent: Vec<&crate::broker::Message> = world.broker.sent.iter().filter_map(|s| if let crate::broker::SentKind::Deliver { ch: 1, msg, .. } = &s.kind { Some(msg) } else { None }).collect();
    if got.len() != sent.len() {
        rep.violate("delivery-count", if got.len() < sent.len() { "lost" } else { "extra" }, format!("write stall: broker sent {} deliveries, the consumer received {}", sent.len(), got.len()));
        return rep;
    }
    for (i, (g, m)) in got.iter().zip(sent.iter()).enumerate() {
        if !crate::oracles::msg_eq(g, m) {
            rep.violate("delivery-content", "stalled-writes", format!("write stall: delivery #{} differs: received tag {} body {} bytes, sent tag {} body {} bytes", i, g.delivery_tag, g.body.len(), m.delivery_tag, m.body.len()));
            return rep;
        }
    }
    rep.nontrivial = backlog;
    rep.distinct = rep.trace_hash;
    rep
}
