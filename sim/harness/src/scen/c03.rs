//! C03 — inbound messages are reassembled and delivered exactly once, intact, in order.
use super::*;
use crate::gen::*;
use crate::oracles::{inbound_oracle, returns_oracle};

pub struct C03;

impl Scenario for C03 {
    fn property(&self) -> &'static str {
        "C03"
    }
    fn rule(&self) -> String {
        "Seeded sessions: 1-3 threads x 1-3 channels with up to 4 consumers per thread (some never drained), gets, return listeners registered before the first publish. The broker generates a valid history: 0-6 deliveries per consumer, bodies 0..3P+1 bytes split arbitrarily (whole, 1-byte frames, random, tiny pieces), channels interleaved at frame boundaries by the output mux, the byte stream segmented (whole / MTU / <=64 B / 1 byte / random) with gaps, short reads and spurious wake-ups. Oracle: per consumer received == sent (all fields, order), each get == the content generated for that get, return listener == returns sent (prefix rule after a round trip). A hang while a lazy consumer holds messages is a violation. Non-trivial = >=1 content body arrived in >=2 body frames AND the mux interleaved another channel's frame or a segment boundary fell inside a frame (>=1 would-block read); distinct = schedule trace hash.".to_string()
    }
    fn plan(&self, thorough: bool, seed: u64) -> Vec<CaseSpec> {
        plan_random("C03", "inbound", seed, if thorough { 100_000 } else { 5_000 })
    }
    fn run_case(&self, spec: &CaseSpec, text: bool) -> CaseReport {
        let mut cs = spec.stream();
        let mut g = GenCfg::default();
        g.max_threads = 3;
        g.max_ops = 30;
        g.write_faults = false;
        g.returns_protocol = true;
        g.drain_all = cs.choose("drain_all", 4) != 0;
        g.body_factor = 3;
        g.frame_max_choices = vec![(0, 4096), (4096, 131072), (0, 8192), (8192, 4096)];
        let mut gen = gen_session(&mut cs, &g);
        // one session in eight carries very large bodies (around 64 KiB, 1 MiB and 2 MiB)
        let big = cs.choose("big_bodies", 8) == 0;
        if big {
            gen.broker.body_max = *pick(&mut cs, "big_body_max", &[65_536usize, (1 << 20) - 1, 1 << 20, (1 << 20) + 1, (2 << 20) + 5]);
            gen.broker.seg_mode = pick(&mut cs, "big_seg", &[crate::broker::SegMode::Whole, crate::broker::SegMode::Mtu]).clone();
            gen.broker.deliveries_max = 2;
            gen.net.rd_short_permille = 0;
            // megabytes in MTU-sized segments take a few million scheduler steps
            gen.sched.step_cap = 6_000_000;
        }
        gen.sched.step_cap = gen.sched.step_cap.max(1_500_000);
        let (res, world) = run_generated(&gen, cs, text, |_| {});
        let mut rep = CaseReport::default();
        fill_common(&mut rep, &res, &world);
        rep.sample = plan_summary(&gen);
        for p in &res.run.panics {
            rep.violate("panic", format!("{}@{}", p.thread, p.location), format!("{} panicked: {}", p.thread, p.message));
        }
        if let Some((sig, detail)) = hang_sig(&res.run.outcome) {
            rep.violate("hang", sig, format!("valid server history, yet somebody waits forever (a non-draining consumer must delay nobody): {}", detail));
            return rep;
        }
        if rep.inconclusive.is_some() {
            return rep;
        }
        inbound_oracle(&mut rep, &res.hist, &world.broker);
        if rep.violations.is_empty() {
            returns_oracle(&mut rep, &res.hist, &world.broker);
        }
        let multi = world.broker.stats.body_frames_out >= 2;
        let n = world.net.lock().unwrap();
        rep.nontrivial = multi && (world.broker.stats.mux_interleaves > 0 || n.stats.would_block_reads > 3);
        rep.count("probe.multi_frame_content", multi as u64);
        rep.count("probe.big_body_sessions", big as u64);
        rep.distinct = rep.trace_hash;
        rep
    }
}
