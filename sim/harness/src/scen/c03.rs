//! C03 — inbound messages are reassembled and delivered exactly once, intact, in order.
use super::*;
use crate::gen::*;
use crate::oracles::{inbound_oracle, returns_oracle};

pub struct C03;

impl Scenario for C03 {
    fn property(&self) -> &'static str {
        "C03"
    }
    fn rule(&self) -> String {
        "Seeded sessions: 1-3 threads x 1-3 channels with up to 4 consumers per thread (some never drained), gets, return listeners registered before the first publish. The broker generates a valid history: 0-6 deliveries per consumer, bodies 0..3P+1 bytes split arbitrarily (whole, 1-byte frames, random, tiny pieces), channels interleaved at frame boundaries by the output mux, the byte stream segmented (whole / MTU / <=64 B / 1 byte / random) with gaps, short reads and spurious wake-ups. Oracle: per consumer received == sent (all fields, order), each get == the content generated for that get, return listener == returns sent (prefix rule after a round trip). A hang while a lazy consumer holds messages is a violation. Non-trivial = >=1 content body arrived in >=2 body frames AND the mux interleaved another channel's frame or a segment boundary fell inside a frame (>=1 would-block read); distinct = schedule trace hash.".to_string()
    }
    fn plan(&self, thorough: bool, seed: u64) -> Vec<CaseSpec> {
        let mut v = plan_random("C03", "inbound", seed, if thorough { 100_000 } else { 5_000 });
        // a consumer that never drains while tens of thousands of deliveries pile up for it
        for (i, s) in seeds_for("C03", "flood", seed, if thorough { 32 } else { 4 }).into_iter().enumerate() {
            v.push(CaseSpec { family: "flood".into(), seed: s, params: vec![i as i64], choices: None });
        }
        v
    }
    fn run_case(&self, spec: &CaseSpec, text: bool) -> CaseReport {
        if spec.family == "flood" {
            return run_flood(spec, text);
        }
        let mut cs = spec.stream();
        let mut g = GenCfg::default();
        g.max_threads = 3;
        g.max_ops = 30;
        g.write_faults = false;
        g.returns_protocol = true;
        g.drain_all = cs.choose("drain_all", 4) != 0;
        g.body_factor = 3;
        g.frame_max_choices = vec![(0, 4096), (4096, 131072), (0, 8192), (8192, 4096)];
        let mut gen = gen_session(&mut cs, &g);
        // one session in eight carries very large bodies (around 64 KiB, 1 MiB and 2 MiB)
        let big = cs.choose("big_bodies", 8) == 0;
        if big {
            gen.broker.body_max = *pick(&mut cs, "big_body_max", &[65_536usize, (1 << 20) - 1, 1 << 20, (1 << 20) + 1, (2 << 20) + 5]);
            gen.broker.seg_mode = pick(&mut cs, "big_seg", &[crate::broker::SegMode::Whole, crate::broker::SegMode::Mtu]).clone();
            gen.broker.deliveries_max = 2;
            gen.net.rd_short_permille = 0;
            // megabytes in MTU-sized segments take a few million scheduler steps
            gen.sched.step_cap = 6_000_000;
        }
        gen.sched.step_cap = gen.sched.step_cap.max(1_500_000);
        let (res, world) = run_generated(&gen, cs, text, |_| {});
        let mut rep = CaseReport::default();
        fill_common(&mut rep, &res, &world);
        rep.sample = plan_summary(&gen);
        for p in &res.run.panics {
            rep.violate("panic", format!("{}@{}", p.thread, p.location), format!("{} panicked: {}", p.thread, p.message));
        }
        if let Some((sig, detail)) = hang_sig(&res.run.outcome) {
            rep.violate("hang", sig, format!("valid server history, yet somebody waits forever (a non-draining consumer must delay nobody): {}", detail));
            return rep;
        }
        if rep.inconclusive.is_some() {
            return rep;
        }
        inbound_oracle(&mut rep, &res.hist, &world.broker);
        if rep.violations.is_empty() {
            returns_oracle(&mut rep, &res.hist, &world.broker);
        }
        let multi = world.broker.stats.body_frames_out >= 2;
        let n = world.net.lock().unwrap();
        rep.nontrivial = multi && (world.broker.stats.mux_interleaves > 0 || n.stats.would_block_reads > 3);
        rep.count("probe.multi_frame_content", multi as u64);
        rep.count("probe.big_body_sessions", big as u64);
        rep.distinct = rep.trace_hash;
        rep
    }
}

/// One consumer is flooded and never reads; another channel of the same connection keeps working; in the end
/// every delivery is there, once, in order.
fn run_flood(spec: &CaseSpec, text: bool) -> CaseReport {
    use crate::broker::BrokerCfg;
    use crate::client::*;
    use crate::session::*;
    let mut cs = spec.stream();
    let n = [70_000u32, 1_000, 70_000, 140_000][spec.params.first().copied().unwrap_or(0) as usize % 4];
    let mut broker = BrokerCfg::default();
    broker.deliveries_for_queue = vec![("q.flood".to_string(), n), ("q.other".to_string(), 3)];
    broker.deliveries_min = 0;
    broker.deliveries_max = 0;
    broker.body_max = 8;
    broker.fixed_consumer_tags = true;
    broker.seg_mode = pick(&mut cs, "flood_seg", &[crate::broker::SegMode::Whole, crate::broker::SegMode::Mtu]).clone();
    broker.mux_burst_max = *pick(&mut cs, "flood_burst", &[1u32, 8, 64]);
    broker.s2c_lat_min_ns = 1_000;
    broker.s2c_lat_max_ns = 1_000;
    let mut net = crate::stream::NetCfg::default();
    net.c2s_lat_min_ns = 1_000;
    net.c2s_lat_max_ns = 1_000;
    let qos = |c: u16| Op::Qos { size: 0, count: c, global: false };
    let consume = |q: &str| Op::Consume { queue: q.to_string(), no_local: false, no_ack: true, exclusive: false, args: 0, via_queue: false };
    let ops = vec![
        (0usize, consume("q.flood")),
        (1, consume("q.other")),
        (1, qos(1)),
        // the reply queues up behind the flood on that channel: when it is here, everything has been received
        (0, qos(2)),
        (1, qos(3)),
        (0, Op::Cancel { slot: 0 }),
        (1, Op::Cancel { slot: 1 }),
        (0, Op::Drain { slot: 0, max: None, acks: vec![], via_consumer: false }),
        (1, Op::Drain { slot: 1, max: None, acks: vec![], via_consumer: false }),
    ];
    let threads = vec![ThreadPlan { chan_ids: vec![Some(1), Some(2)], ops, close_channels: true }];
    let plan = SessionPlan { opts: ConnOpts::default(), tuning: Tuning::default(), threads, owner_ops: vec![], close: CloseKind::Close, join_before_close: true };
    let mut sched = amiquip_simrt::SchedCfg::default();
    sched.stick_pct = *pick(&mut cs, "stick", &[90u32, 50]);
    sched.step_cap = 60_000_000;
    sched.hang_after_ns = 600_000_000_000;
    let gen = Generated { plan, net, broker, sched, frame_max: 131072 };
    let (res, world) = run_generated(&gen, cs, text, |_| {});
    let mut rep = CaseReport::default();
    fill_common(&mut rep, &res, &world);
    rep.sample = serde_json::json!({"family": "flood", "deliveries_to_the_idle_consumer": n});
    rep.count("c03.flood_sessions", 1);
    for p in &res.run.panics {
        rep.violate("panic", format!("{}@{}", p.thread, p.location), format!("{} panicked: {}", p.thread, p.message));
    }
    if let Some((sig, detail)) = hang_sig(&res.run.outcome) {
        rep.violate("hang", sig, format!("{} deliveries waiting for a consumer that does not read: somebody waits forever: {}", n, detail));
        return rep;
    }
    if rep.inconclusive.is_some() {
        return rep;
    }
    for o in &res.hist.ops {
        if let OpResult::Err(e) = &o.result {
            rep.violate("flood-disturbed", "call-failed", format!("{} deliveries waiting for a consumer that does not read: {} failed with {}", n, crate::expect::short_op(&o.op), e));
            return rep;
        }
    }
    inbound_oracle(&mut rep, &res.hist, &world.broker);
    rep.nontrivial = true;
    rep.distinct = rep.trace_hash;
    rep
}
