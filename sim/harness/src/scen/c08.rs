//! C08 — connection close handshake: final frame, notifications, result.
use super::*;
use crate::broker::SentKind;
use crate::client::*;
use crate::expect::{expectations, identity_of_exp, identity_of_frame};
use crate::lifecycle::*;
use crate::oracles::decode_c2s;
use amq_protocol::frame::AMQPFrame;
use amq_protocol::protocol::connection::AMQPMethod as Cn;
use amq_protocol::protocol::AMQPClass;

pub struct C08;

impl Scenario for C08 {
    fn property(&self) -> &'static str {
        "C08"
    }
    fn rule(&self) -> String {
        "Seeded lifecycle sessions ended (a) by the client closing the connection while 1-3 worker threads are mid-RPC, mid-publish or hold consumers (join after close), with write stalls/short writes so that data is still queued, the broker answering CloseOk followed by EOF in the same segment or a little later; or (b) by the server sending Connection.Close(code,text) at a random time, waiting for CloseOk, then EOF. Oracle (a): the last frame ever written is Connection.Close(200,\"goodbye\",0,0); close() = Ok; each channel's first failing call = ClientClosedConnection; consumers still attached end with ClientClosedConnection. (b): the last frame written is Connection.CloseOk; close() = ServerClosedConnection{code,text}; each channel's first failing call and every attached consumer carry that error. Both: per channel the frames on the wire are a prefix of the frames issued (nothing in the middle is lost, nothing after the close point is written), no hang, no panic. Runs in which both sides close at once are only checked for hang/panic. Non-trivial = at least one worker call or consumer was still active when the close happened (a channel saw the close error or a consumer got the close terminal); distinct = schedule trace hash.".to_string()
    }
    fn plan(&self, thorough: bool, seed: u64) -> Vec<CaseSpec> {
        plan_random("C08", "close", seed, if thorough { 200_000 } else { 10_000 })
    }
    fn run_case(&self, spec: &CaseSpec, text: bool) -> CaseReport {
        let mut cs = spec.stream();
        let lc = LifeCfg {
            consumer_ends: vec![ConsumerEnd::Inherit, ConsumerEnd::Inherit, ConsumerEnd::ClientCancel],
            channel_ends: vec![ChannelEnd::Normal],
            conn_ends: vec![ConnEnd::ClientCloseEarly { after_ns: 0 }, ConnEnd::ClientCloseEarly { after_ns: 0 }, ConnEnd::ServerClose { code: 0, text: String::new() }, ConnEnd::ServerClose { code: 0, text: String::new() }, ConnEnd::Normal],
            max_threads: 3,
            busy_ops: 14,
            write_faults: true,
            read_faults: true,
            heartbeat: 0,
            explicit_drop_after_server_cancel: false,
            empty_publish_before_server_cancel: false,
        };
        // a third of the sessions negotiate a 1 s heartbeat and the server takes up to 2.6 s to answer
        // the client's Close (heartbeat timers keep firing while the close handshake is pending)
        let hb = if cs.choose("c08_heartbeat", 3) == 0 { 1u16 } else { 0 };
        let lc = LifeCfg { heartbeat: hb, ..lc };
        let mut life = gen_life(&mut cs, &lc);
        if hb > 0 {
            life.gen.broker.tune.2 = hb;
            life.gen.broker.heartbeat_every_ns = Some(400_000_000);
            life.gen.broker.closeok_delay_ns = cs.choose("closeok_delay_ms", 2600) as u64 * 1_000_000;
            life.gen.sched.hang_after_ns = 60_000_000_000;
        }
        // one session in six: both sides close at the same moment, and the I/O thread is descheduled around
        // it so that the server's Connection.Close and the owner's close request are pending in one wake-up
        // (in either order): whichever is handled first, the I/O thread must survive it
        let both_at = if cs.choose("c08_both_close", 6) == 0 { Some(1_000 * (300 + cs.choose("c08_both_at_us", 15_000) as u64)) } else { None };
        if let Some(at) = both_at {
            life.gen.plan.owner_ops = vec![crate::session::OwnerOp::SleepNs(at)];
            life.gen.plan.join_before_close = false;
            life.gen.broker.script.retain(|(_, a)| !matches!(a, crate::broker::Action::CloseConnection { .. }));
            life.gen.broker.script.push((crate::broker::Trigger::AtTime(at.saturating_sub(150_000)), crate::broker::Action::CloseConnection { code: 320, text: "CONNECTION_FORCED-both".into() }));
            life.gen.broker.s2c_lat_max_ns = life.gen.broker.s2c_lat_max_ns.min(100_000);
            life.gen.broker.s2c_lat_min_ns = life.gen.broker.s2c_lat_min_ns.min(life.gen.broker.s2c_lat_max_ns);
        }
        // directed (one server-close session in four that has a consumer): the server cancels a consumer
        // (nowait = false) and closes the connection as its reaction to the method frame of a 20-frame publish on
        // that consumer's channel: the client's CancelOk is held back behind the publish in progress when the
        // Connection.Close arrives - whatever becomes of it, Connection.CloseOk is the last frame written
        let mut cancel_then_close = 0u64;
        if both_at.is_none() && cs.choose("c08_cancel_then_close", 4) == 0 {
            if let ConnEnd::ServerClose { code, text: ctext } = life.conn_end.clone() {
                if let Some(c) = life.consumers.iter().find(|c| matches!(c.end, ConsumerEnd::Inherit)).cloned() {
                    if let Some(ci) = life.chans.iter().find(|x| x.id == c.ch).map(|x| (x.thread, x.slot)) {
                        let (thread, slot) = ci;
                        let plan = &mut life.gen.plan.threads[thread - 1];
                        let pos = plan.ops.iter().position(|(_, o)| !matches!(o, Op::Consume { .. })).unwrap_or(plan.ops.len());
                        let prior = plan.ops[..pos].iter().filter(|(s2, o)| *s2 == slot && matches!(o, Op::Publish { .. })).count() as u32;
                        plan.ops.insert(pos, (slot, Op::Publish { exchange: "x.long".into(), rk: "rk.long".into(), mandatory: false, immediate: false, props: 0, body_len: 20 * (life.gen.frame_max - 8), via_exchange: false }));
                        life.gen.broker.script.retain(|(_, a)| !matches!(a, crate::broker::Action::CloseConnection { .. }));
                        life.gen.broker.script.push((crate::broker::Trigger::OnPublishMethod { ch: c.ch, nth: prior }, crate::broker::Action::CancelThenCloseConnection { ch: c.ch, nth_consumer: c.nth_on_channel, nowait: false, code, text: ctext }));
                        cancel_then_close = 1;
                    }
                }
            }
        }
        let (res, world) = run_generated(&life.gen, cs, text, move |_| {
            if let Some(at) = both_at {
                crate::world::call_in(at.saturating_sub(200_000), move |_| amiquip_simrt::stall_thread_named("amiquip-io", at + 300_000));
            }
        });
        let mut rep = CaseReport::default();
        fill_common(&mut rep, &res, &world);
        rep.count("c08.both_sides_close_sessions", both_at.is_some() as u64);
        rep.count("c08.cancel_then_connection_close_during_publish", cancel_then_close);
        rep.sample = serde_json::json!({"plan": plan_summary(&life.gen), "conn_end": format!("{:?}", life.conn_end), "closeok_mode": format!("{:?}", life.gen.broker.closeok_mode), "consumers": life.consumers.iter().map(|c| format!("{:?}", c)).collect::<Vec<_>>()});
        for p in &res.run.panics {
            rep.violate("panic", format!("{}@{}", p.thread, p.location), format!("{} panicked: {}", p.thread, p.message));
        }
        if let Some((sig, detail)) = hang_sig(&res.run.outcome) {
            rep.violate("hang", sig, format!("close handshake: somebody waits forever: {}", detail));
            return rep;
        }
        if rep.inconclusive.is_some() {
            return rep;
        }
        let n = world.net.lock().unwrap();
        let per = match decode_c2s(&n.c2s) {
            Ok(p) => p,
            Err(e) => {
                rep.inconclusive = Some(format!("stream not decodable: {}", e));
                return rep;
            }
        };
        // last frame ever written (any channel, heartbeats included): by offset
        let mut last: Option<(usize, u16, AMQPFrame)> = None;
        for (ch, v) in &per {
            for (off, _, f) in v {
                if last.as_ref().map(|l| *off > l.0).unwrap_or(true) {
                    last = Some((*off, *ch, f.clone()));
                }
            }
        }
        if let Ok((_, raw, _)) = crate::wire::split_stream(&n.c2s, false) {
            if let Some(f) = raw.last() {
                if f.ty == 8 && last.as_ref().map(|l| f.offset > l.0).unwrap_or(true) {
                    last = Some((f.offset, f.channel, AMQPFrame::Heartbeat(f.channel)));
                }
            }
        }
        rep.count("c08.heartbeat_sessions", (hb > 0) as u64);
        let client_close_on_wire = per.get(&0).map(|v| v.iter().any(|(_, _, f)| matches!(f, AMQPFrame::Method(_, AMQPClass::Connection(Cn::Close(_)))))).unwrap_or(false);
        let server_close: Option<(u16, String, u64)> = world.broker.sent.iter().find_map(|s| if let SentKind::ConnectionClose { code, text } = &s.kind { Some((*code, text.clone(), s.stamp)) } else { None });
        let close_rec = res.hist.conn.iter().find_map(|c| if let ConnRec::Close { result, invoke, ret, .. } = c { Some((result.clone(), *invoke, *ret)) } else { None });
        let (close_result, close_invoke, _close_ret) = match close_rec {
            Some(x) => x,
            None => {
                rep.inconclusive = Some("connection was never opened".into());
                return rep;
            }
        };
        if client_close_on_wire && server_close.is_some() {
            rep.count("c08.simultaneous_close", 1);
            rep.distinct = rep.trace_hash;
            return rep;
        }
        let mut active = false;
        if let Some((code, text, sent_stamp)) = &server_close {
            // (b) server-initiated
            let want = format!("ServerClosedConnection({},{})", code, text);
            rep.count("c08.server_close_runs", 1);
            match &last {
                Some((_, 0, AMQPFrame::Method(_, AMQPClass::Connection(Cn::CloseOk(_))))) => {}
                other => {
                    rep.violate("last-frame", "not-closeok", format!("server closed with ({},{}): last frame written by the client is {}", code, text, other.as_ref().map(|l| format!("ch{} {}", l.1, identity_of_frame(&l.2))).unwrap_or_else(|| "nothing".into())));
                    return rep;
                }
            }
            if close_result != Err(want.clone()) {
                rep.violate("close-result", format!("{:?}", close_result).chars().take(40).collect::<String>(), format!("server closed with ({},{}) but Connection::close returned {:?}", code, text, close_result));
                return rep;
            }
            let (checked, _) = first_error_rule(&mut rep, "channel-error", &res.hist, &want, *sent_stamp);
            active |= checked > 0;
            if !rep.violations.is_empty() {
                return rep;
            }
            for o in &res.hist.ops {
                if let OpResult::Drained { terminals, disconnected, .. } = &o.result {
                    if terminals.iter().any(|t| matches!(t, Terminal::ServerClosedConnection(_))) {
                        active = true;
                        if terminals != &vec![Terminal::ServerClosedConnection(want.clone())] || !*disconnected {
                            rep.violate("consumer-terminal", "server-close", format!("consumer got {:?} (disconnected {}), expected exactly [{}]", terminals, disconnected, want));
                            return rep;
                        }
                    }
                }
            }
        } else {
            // (a) client-initiated
            rep.count("c08.client_close_runs", 1);
            match &last {
                Some((_, 0, AMQPFrame::Method(_, AMQPClass::Connection(Cn::Close(c))))) => {
                    if c.reply_code != 200 || c.reply_text != "goodbye" || c.class_id != 0 || c.method_id != 0 {
                        rep.violate("last-frame", "close-fields", format!("client Close carries {:?}", c));
                        return rep;
                    }
                }
                other => {
                    rep.violate("last-frame", "not-close", format!("client closed the connection: last frame written is {} (a frame after the close point, or the Close was never written)", other.as_ref().map(|l| format!("ch{} {}", l.1, identity_of_frame(&l.2))).unwrap_or_else(|| "nothing".into())));
                    return rep;
                }
            }
            if close_result != Ok(()) {
                rep.violate("close-result", format!("{:?}", close_result).chars().take(40).collect::<String>(), format!("server answered CloseOk ({:?}) but Connection::close returned {:?}", life.gen.broker.closeok_mode, close_result));
                return rep;
            }
            let (checked, _) = first_error_rule(&mut rep, "channel-error", &res.hist, "ClientClosedConnection", close_invoke);
            active |= checked > 0;
            if !rep.violations.is_empty() {
                return rep;
            }
            for o in &res.hist.ops {
                if let OpResult::Drained { terminals, disconnected, .. } = &o.result {
                    if terminals.iter().any(|t| matches!(t, Terminal::ClientClosedConnection)) {
                        active = true;
                        if terminals != &vec![Terminal::ClientClosedConnection] || !*disconnected {
                            rep.violate("consumer-terminal", "client-close", format!("consumer got {:?} (disconnected {})", terminals, disconnected));
                            return rep;
                        }
                    }
                }
            }
        }
        // both: per channel, what is on the wire is a prefix of what was issued
        for e in expectations(&res.hist, life.gen.frame_max) {
            let got: Vec<String> = per.get(&e.ch).map(|v| v.iter().map(|(_, _, f)| identity_of_frame(f)).collect()).unwrap_or_default();
            let want: Vec<String> = e.frames.iter().map(|(f, _)| identity_of_exp(f)).collect();
            // failed calls make the tail of `want` uncertain, never the part that is on the wire
            for (i, g) in got.iter().enumerate() {
                if g == "channel.close-ok" || g.starts_with("basic.cancel-ok") {
                    continue;
                }
                if !want.contains(g) {
                    rep.violate("wire-prefix", "unexpected-frame", format!("channel {} frame #{} on the wire ({}) was never issued", e.ch, i, g.chars().take(80).collect::<String>()));
                    return rep;
                }
            }
            // order: the wire sequence must be a subsequence-free prefix: compare positions
            let mut wi = 0;
            for g in got.iter().filter(|g| *g != "channel.close-ok" && !g.starts_with("basic.cancel-ok")) {
                match want[wi..].iter().position(|w| w == g) {
                    Some(0) => wi += 1,
                    Some(k) => {
                        // frames want[wi..wi+k] were skipped: allowed only if their calls failed / were cut by the close
                        if e.defined {
                            rep.violate("wire-prefix", "gap", format!("channel {}: {} issued frames missing before {} although every call on the channel succeeded", e.ch, k, g.chars().take(80).collect::<String>()));
                            return rep;
                        }
                        wi += k + 1;
                    }
                    None => {
                        rep.violate("wire-prefix", "reordered", format!("channel {}: frame {} appears out of issue order", e.ch, g.chars().take(80).collect::<String>()));
                        return rep;
                    }
                }
            }
        }
        rep.nontrivial = active;
        rep.distinct = rep.trace_hash;
        rep
    }
}
