//! C10 — channel ids: unique among open channels, within 1..=channel_max, reusable.
use super::*;
use crate::broker::BrokerCfg;
use crate::client::*;
use crate::gen::{pick, Generated};
use crate::oracles::decode_c2s;
use crate::session::*;
use crate::stream::NetCfg;
use amiquip_simrt::SchedCfg;
use amq_protocol::frame::AMQPFrame;
use amq_protocol::protocol::channel::AMQPMethod as Ch;
use amq_protocol::protocol::AMQPClass;
use std::collections::BTreeSet;

pub struct C10;

const MAXES: [u16; 8] = [1, 2, 3, 8, 255, 2047, 65534, 65535];

impl Scenario for C10 {
    fn property(&self) -> &'static str {
        "C10"
    }
    fn rule(&self) -> String {
        "Family 'program' (seeded): negotiated channel_max from {1,2,3,8,255,2047,65534,65535} (client option x server Tune), programs of <= 60 operations out of open_channel(Some(id)) with id from {0, 1, max-1, max, max+1, 65535, an id that is open, an id that was freed, random}, open_channel(None), client close of a kept channel, server close of a kept channel, the first Channel.Open of up to two ids refused by the server with Channel.Close (the call fails with the server's reason, the id stays free), both at about the same time (the two Close frames may cross; the id is then re-used with or without a pause); all on the connection owner's thread (open_channel takes &mut Connection) while the broker answers with latencies. Reference model: the set of open ids => Ok(id) / UnavailableChannelId(id) / some free id in 1..=max / ExhaustedChannelIds. Oracle: every result equals the model's (for None: any id that is free), no two open channels share an id, never id 0, Channel.Open appears on exactly that id on the wire, no hang, no panic. Family 'wrap' (one long run per tier): channel_max = 65535 and > 65535 automatic allocations with immediate close, to cross the never-used-id counter's upper end. Non-trivial = the program exhausted the id space at least once or reused a freed id; distinct = hash of (channel_max, operation sequence).".to_string()
    }
    fn plan(&self, thorough: bool, seed: u64) -> Vec<CaseSpec> {
        let mut v = plan_random("C10", "program", seed, if thorough { 120_000 } else { 8_000 });
        v.push(CaseSpec { family: "wrap".into(), seed: amiquip_simrt::choice::mix(seed, 10, 1), params: vec![], choices: None });
        v
    }
    fn run_case(&self, spec: &CaseSpec, text: bool) -> CaseReport {
        let mut cs = spec.stream();
        let mut rep = CaseReport::default();
        let wrap = spec.family == "wrap";
        let max = if wrap { 65535 } else { *pick(&mut cs, "channel_max", &MAXES) };
        // who imposes the limit
        let (c_cm, s_cm) = match cs.choose("cm_side", 3) {
            0 => (max, 0u16),
            1 => (0u16, max),
            _ => (max, max),
        };
        let (c_cm, s_cm) = if max == 65535 && cs.choose("cm_unlimited", 2) == 0 { (0, 0) } else { (c_cm, s_cm) };
        let mut broker = BrokerCfg::default();
        broker.tune = (s_cm, 131072, 0);
        broker.think_max_ns = if wrap { 0 } else { *pick(&mut cs, "think", &[0u64, 50_000]) };
        // up to two ids whose first Channel.Open the server refuses (Channel.Close instead of OpenOk): the call
        // fails with the server's reason and the id stays free
        let mut armed: std::collections::BTreeMap<u16, String> = Default::default();
        if !wrap {
            for _ in 0..cs.choose("n_refused", 3) {
                let id = (*pick(&mut cs, "refused_id", &[1u16, 2, 3, max])).min(max).max(1);
                if armed.contains_key(&id) {
                    continue;
                }
                let code = 400 + cs.choose("refused_code", 100) as u16;
                let text = format!("refused-{}", id);
                broker.script.push((crate::broker::Trigger::OnRequest { ch: id, nth: 0, instead: true }, crate::broker::Action::CloseChannel { ch: id, code, text: text.clone() }));
                armed.insert(id, format!("ServerClosedChannel({},{},{})", id, code, text));
            }
        }
        let n_armed = armed.len() as u64;
        let mut net = NetCfg::default();
        net.c2s_lat_min_ns = 1_000;
        net.c2s_lat_max_ns = if wrap { 1_000 } else { *pick(&mut cs, "c2s_lat", &[1_000u64, 100_000]) };
        // program + model
        let mut open: Vec<Option<u16>> = Vec::new(); // kept slot -> id (model's view); None = closed
        let mut open_set: BTreeSet<u16> = BTreeSet::new();
        let mut freed: Vec<u16> = Vec::new();
        let mut owner_ops: Vec<OwnerOp> = Vec::new();
        #[derive(Debug, Clone)]
        enum Exp {
            Exact(u16),
            Unavailable(u16),
            AnyFree(BTreeSet<u16>, usize), // currently open ids, count of free
            Exhausted,
        }
        let mut expects: Vec<(String, Exp)> = Vec::new();
        let mut exhausted_once = false;
        let mut reused = false;
        if wrap {
            for _ in 0..65_545u32 {
                owner_ops.push(OwnerOp::OpenChannel { id: None, keep: false });
                expects.push(("open(None)+close".into(), Exp::AnyFree(BTreeSet::new(), max as usize)));
            }
        } else {
            let n_ops = 1 + cs.choose("n_ops", 60) as usize;
            // the model cannot know which id open(None) picks: resolved while checking, so the program
            // is generated against *symbolic* slots and explicit ids only refer to explicitly opened ones
            let mut explicit_open: Vec<u16> = Vec::new();
            for _ in 0..n_ops {
                match cs.choose("op", 10) {
                    0..=3 => {
                        let cands: Vec<u32> = vec![0, 1, max.saturating_sub(1) as u32, max as u32, max as u32 + 1, 65535, *explicit_open.first().unwrap_or(&1) as u32, *freed.last().unwrap_or(&max) as u32, 1 + cs.choose("rand_id", max as u32) , 2];
                        let id = (*pick(&mut cs, "id_kind", &cands)).min(65535) as u16;
                        owner_ops.push(OwnerOp::OpenChannel { id: Some(id), keep: true });
                        expects.push((format!("open(Some({}))", id), Exp::Exact(id)));
                        open.push(Some(id)); // provisional: fixed up during checking
                        explicit_open.push(id);
                    }
                    4..=6 => {
                        owner_ops.push(OwnerOp::OpenChannel { id: None, keep: true });
                        expects.push(("open(None)".into(), Exp::AnyFree(BTreeSet::new(), 0)));
                        open.push(None);
                    }
                    7 | 8 => {
                        if !open.is_empty() {
                            let nth = cs.choose("close_which", open.len() as u32) as usize;
                            owner_ops.push(OwnerOp::CloseKept { nth });
                            expects.push((format!("close(kept #{})", nth), Exp::Exhausted));
                        }
                    }
                    _ => {
                        if !open.is_empty() {
                            let nth = cs.choose("srv_close_which", open.len() as u32) as usize;
                            if cs.choose("crossing", 3) == 0 {
                                // both sides close the channel at about the same time: the Close frames may cross,
                                // the server's CloseOk for the client's Close then arrives for an id that is
                                // closed already (or, without the pause, already open again)
                                let lead_ns = *pick(&mut cs, "cross_lead", &[0u64, 1_000, 30_000, 150_000]);
                                let settle_ns = *pick(&mut cs, "cross_settle", &[20_000_000u64, 0, 50_000]);
                                owner_ops.push(OwnerOp::CrossCloseKept { nth, code: 400 + cs.choose("code", 100) as u16, lead_ns, settle_ns });
                                expects.push((format!("crossing-close(kept #{}, lead {} ns, settle {} ns)", nth, lead_ns, settle_ns), Exp::Exhausted));
                            } else {
                                owner_ops.push(OwnerOp::ServerCloseKept { nth, code: 400 + cs.choose("code", 100) as u16 });
                                expects.push((format!("server-close(kept #{})", nth), Exp::Exhausted));
                            }
                        }
                    }
                }
            }
        }
        let _ = (&open_set, &freed, Exp::Unavailable(0));
        let opts = ConnOpts { channel_max: c_cm, ..ConnOpts::default() };
        let plan = SessionPlan { opts, tuning: Tuning::default(), threads: vec![], owner_ops: owner_ops.clone(), close: CloseKind::Close, join_before_close: true };
        let mut sched = SchedCfg::default();
        sched.stick_pct = if wrap { 99 } else { *pick(&mut cs, "stick", &[90u32, 50]) };
        sched.step_cap = if wrap { 40_000_000 } else { 400_000 };
        sched.hang_after_ns = 100_000_000_000;
        let gen = Generated { plan, net, broker, sched, frame_max: 131072 };
        let (res, world) = run_generated(&gen, cs, text, |_| {});
        fill_common(&mut rep, &res, &world);
        rep.sample = serde_json::json!({"family": spec.family, "channel_max": max, "client_option": c_cm, "server_tune": s_cm, "ops": if wrap { vec!["65545 x open_channel(None) + close".to_string()] } else { expects.iter().map(|e| e.0.clone()).collect::<Vec<_>>() }});
        for p in &res.run.panics {
            rep.violate("panic", format!("{}@{}", p.thread, p.location), format!("channel_max {}: {} panicked: {}", max, p.thread, p.message));
        }
        if let Some((sig, detail)) = hang_sig(&res.run.outcome) {
            // name the operation the owner is stuck in
            let stuck = detail.split("owner op#").nth(1).map(|s| s.chars().take(60).collect::<String>()).unwrap_or_default();
            let kind = if stuck.contains("Some(0)") { "open-some-0" } else { "other" };
            rep.violate("hang", format!("{}:{}", kind, sig), format!("channel_max {}: {}", max, detail));
            return rep;
        }
        if rep.inconclusive.is_some() || !rep.violations.is_empty() {
            return rep;
        }
        // replay the history against the set model
        let mut model_open: BTreeSet<u16> = BTreeSet::new();
        let mut kept_ids: Vec<Option<u16>> = Vec::new();
        let mut conn_iter = res.hist.conn.iter().filter(|c| matches!(c, ConnRec::OpenChannel { for_thread: 0, .. }));
        let mut opened_ids_in_order: Vec<u16> = Vec::new();
        let mut ever_freed: BTreeSet<u16> = BTreeSet::new();
        let mut refused_seen = 0u64;
        for (i, op) in owner_ops.iter().enumerate() {
            match op {
                OwnerOp::OpenChannel { id, keep } => {
                    let rec = match conn_iter.next() {
                        Some(ConnRec::OpenChannel { requested, result, .. }) => (requested, result),
                        _ => {
                            rep.inconclusive = Some("history shorter than the program (connection died?)".into());
                            break;
                        }
                    };
                    let free = max as usize - model_open.len();
                    match id {
                        Some(x) => {
                            let mut want: Result<u16, String> = if *x >= 1 && *x <= max && !model_open.contains(x) { Ok(*x) } else { Err(format!("UnavailableChannelId({})", x)) };
                            if want.is_ok() {
                                if let Some(e) = armed.remove(x) {
                                    // the server refuses the first open of this id
                                    want = Err(e);
                                    refused_seen += 1;
                                    opened_ids_in_order.push(*x);
                                }
                            }
                            if rec.1 != &want {
                                let kind = if *x == 0 { "id-0" } else if want.is_ok() { "free-id-refused" } else { "unavailable-id-accepted" };
                                rep.violate("open-explicit", kind, format!("channel_max {} open ids {:?}: op #{} open_channel(Some({})) returned {:?}, model says {:?}", max, model_open.iter().take(20).collect::<Vec<_>>(), i, x, rec.1, want));
                                return rep;
                            }
                        }
                        None => match rec.1 {
                            Ok(got) => {
                                if *got == 0 || *got > max || model_open.contains(got) {
                                    let kind = if *got == 0 { "id-0" } else if *got > max { "above-max" } else { "duplicate" };
                                    rep.violate("open-auto", kind, format!("channel_max {} open ids {:?}: op #{} open_channel(None) returned id {}", max, model_open.iter().take(20).collect::<Vec<_>>(), i, got));
                                    return rep;
                                }
                                if free == 0 {
                                    rep.violate("open-auto", "id-when-exhausted", format!("channel_max {}: all ids open, open_channel(None) returned {}", max, got));
                                    return rep;
                                }
                            }
                            Err(e) if e.starts_with("ServerClosedChannel(") && armed.values().any(|v| v == e) => {
                                // the id the client picked is one whose first open the server refuses
                                let id = *armed.iter().find(|(_, v)| *v == e).unwrap().0;
                                armed.remove(&id);
                                refused_seen += 1;
                                if id == 0 || id > max || model_open.contains(&id) {
                                    rep.violate("open-auto", "refused-open-on-bad-id", format!("channel_max {}: open_channel(None) tried id {} (open ids {:?})", max, id, model_open.iter().take(20).collect::<Vec<_>>()));
                                    return rep;
                                }
                                opened_ids_in_order.push(id);
                            }
                            Err(e) => {
                                if free > 0 || e != "ExhaustedChannelIds" {
                                    rep.violate("open-auto", if free > 0 { "refused-with-free-ids" } else { "wrong-error" }, format!("channel_max {} with {} free ids (open: {:?}): op #{} open_channel(None) returned {}", max, free, model_open.iter().take(20).collect::<Vec<_>>(), i, e));
                                    return rep;
                                }
                                exhausted_once = true;
                            }
                        },
                    }
                    if let Ok(got) = rec.1 {
                        if ever_freed.contains(got) {
                            reused = true;
                        }
                        opened_ids_in_order.push(*got);
                        if *keep {
                            model_open.insert(*got);
                            kept_ids.push(Some(*got));
                        } else {
                            ever_freed.insert(*got);
                        }
                    } else if *keep {
                        // owner_main pushes kept entries only for successful opens
                    }
                    if model_open.len() == max as usize {
                        exhausted_once = true;
                    }
                }
                OwnerOp::CloseKept { nth } | OwnerOp::ServerCloseKept { nth, .. } | OwnerOp::CrossCloseKept { nth, .. } => {
                    if let Some(slot) = kept_ids.get_mut(*nth) {
                        if let Some(id) = slot.take() {
                            model_open.remove(&id);
                            ever_freed.insert(id);
                        }
                    }
                }
                _ => {}
            }
        }
        if rep.inconclusive.is_some() {
            // a connection that died during a plain id program is a violation in its own right
            let close = res.hist.conn.iter().find_map(|c| if let ConnRec::Close { result, .. } = c { Some(result.clone()) } else { None });
            if let Some(Err(e)) = close {
                rep.inconclusive = None;
                rep.violate("connection-died", e.split('(').next().unwrap_or("").to_string(), format!("channel_max {}: the connection died during the id program: close returned {}", max, e));
            }
            return rep;
        }
        let close = res.hist.conn.iter().find_map(|c| if let ConnRec::Close { result, .. } = c { Some(result.clone()) } else { None });
        if let Some(Err(e)) = close {
            rep.violate("connection-died", e.split('(').next().unwrap_or("").to_string(), format!("channel_max {}: close returned {}", max, e));
            return rep;
        }
        // wire: Channel.Open frames appear on exactly the ids handed out, in order
        if !wrap {
            let n = world.net.lock().unwrap();
            if let Ok(per) = decode_c2s(&n.c2s) {
                let mut opens: Vec<(usize, u16)> = Vec::new();
                for (ch, v) in &per {
                    for (off, _, f) in v {
                        if let AMQPFrame::Method(_, AMQPClass::Channel(Ch::Open(_))) = f {
                            opens.push((*off, *ch));
                        }
                    }
                }
                opens.sort();
                let on_wire: Vec<u16> = opens.iter().map(|x| x.1).collect();
                if on_wire != opened_ids_in_order {
                    rep.violate("wire-open", "ids-differ", format!("ids returned by open_channel {:?}, Channel.Open frames on the wire on channels {:?}", opened_ids_in_order, on_wire));
                    return rep;
                }
            }
        }
        rep.count("c10.opens", opened_ids_in_order.len() as u64);
        rep.count("c10.exhausted", exhausted_once as u64);
        rep.count("c10.reused_freed_id", reused as u64);
        rep.count("c10.refusals_scripted", n_armed);
        rep.count("c10.refused_opens_seen", refused_seen);
        rep.count("c10.crossing_closes", res.hist.notes.iter().filter(|n| n.starts_with("cross-closed")).count() as u64);
        rep.count("c10.crossing_closes_crossed", world.broker.sent.iter().enumerate().filter(|(i, s)| if let crate::broker::SentKind::ChannelClose { ch, .. } = &s.kind { world.broker.sent[i + 1..].iter().find_map(|x| match &x.kind { crate::broker::SentKind::Reply { ch: c, method, .. } if c == ch => Some(matches!(method, AMQPClass::Channel(Ch::CloseOk(_)))), _ => None }).unwrap_or(false) } else { false }).count() as u64);
        rep.nontrivial = exhausted_once || reused || wrap;
        let mut h = max as u64;
        for e in &expects {
            for b in e.0.bytes() {
                h = (h ^ b as u64).wrapping_mul(0x100000001b3);
            }
        }
        rep.distinct = if wrap { rep.trace_hash } else { h };
        rep
    }
}
