//! C06 — frame decoding does not depend on how the byte stream is segmented.
use super::*;
use crate::broker::{Action, BrokerCfg, SentKind, Trigger};
use crate::client::*;
use crate::gen::{pick, Generated};
use crate::session::*;
use crate::stream::NetCfg;
use crate::wire;
use amiquip_simrt::{ChoiceStream, SchedCfg};
use amq_protocol::protocol::basic::{self, AMQPMethod as B, AMQPProperties};
use amq_protocol::protocol::connection::{self, AMQPMethod as Cn};
use amq_protocol::protocol::AMQPClass;

pub struct C06;

const GAP: u64 = 5_000_000;
const T0: u64 = 30_000_000;

#[derive(Clone, Debug)]
struct Stream {
    bytes: Vec<u8>,
    /// frame boundaries (offsets relative to the stream start)
    boundaries: Vec<usize>,
    /// expected deliveries: (consumer index 0/1, delivery tag, body, offset one past the last byte of its last frame)
    deliveries: Vec<(usize, u64, Vec<u8>, usize)>,
    /// how the stream ends and what close() must then report
    ending: &'static str,
    expect_error: String,
    then_eof: bool,
}

/// Frames a server may send right behind Connection.OpenOk: heartbeat, blocked notice, heartbeat.
fn preamble() -> Vec<u8> {
    let mut f = Vec::new();
    wire::heartbeat(&mut f);
    wire::method(&mut f, 0, &AMQPClass::Connection(Cn::Blocked(connection::Blocked { reason: "glued".into() })));
    wire::heartbeat(&mut f);
    f
}

fn close_frame() -> Vec<u8> {
    let mut f = Vec::new();
    wire::method(&mut f, 0, &AMQPClass::Connection(Cn::Close(connection::Close { reply_code: 320, reply_text: "CONNECTION_FORCED-glued".into(), class_id: 0, method_id: 0 })));
    f
}

/// The server closes the connection right behind OpenOk; the first k bytes of its Connection.Close share the
/// segment of OpenOk.  However the bytes are cut, the close must be acted on: calls fail with the server's
/// reason, Connection::close reports it, nobody waits forever.
fn run_close_glued(spec: &CaseSpec, text: bool) -> CaseReport {
    let k = spec.params.get(1).copied().unwrap_or(0) as usize;
    let mut cs = match &spec.choices {
        Some(c) => ChoiceStream::replay(c.clone()),
        None => ChoiceStream::generate(spec.seed ^ 0x5_0000 ^ k as u64),
    };
    let mut broker = BrokerCfg::default();
    broker.s2c_lat_min_ns = 1_000;
    broker.s2c_lat_max_ns = 1_000;
    broker.eof_after_server_close = true;
    broker.glue_after_open_ok = Some((close_frame(), k, GAP));
    broker.glue_is_connection_close = true;
    let mut net = NetCfg::default();
    net.c2s_lat_min_ns = 1_000;
    net.c2s_lat_max_ns = 1_000;
    let threads = vec![ThreadPlan { chan_ids: vec![Some(1)], ops: vec![(0, Op::Qos { size: 0, count: 1, global: false })], close_channels: true }];
    let plan = SessionPlan { opts: ConnOpts::default(), tuning: Tuning::default(), threads, owner_ops: vec![], close: CloseKind::Close, join_before_close: true };
    let mut sched = SchedCfg::default();
    sched.stick_pct = *pick(&mut cs, "stick", &[90u32, 50, 0]);
    sched.hang_after_ns = 20_000_000_000;
    let gen = Generated { plan, net, broker, sched, frame_max: 131072 };
    let (res, world) = run_generated(&gen, cs, text, |_| {});
    let mut rep = CaseReport::default();
    fill_common(&mut rep, &res, &world);
    rep.sample = serde_json::json!({"mode": "Connection.Close glued to OpenOk", "bytes_in_the_same_segment": k, "of": close_frame().len()});
    rep.count("c06.close_glued_to_open_ok", 1);
    for p in &res.run.panics {
        rep.violate("panic", format!("{}@{}", p.thread, p.location), format!("{} panicked: {}", p.thread, p.message));
    }
    if let Some((sig, detail)) = hang_sig(&res.run.outcome) {
        rep.violate("hang", sig, format!("Connection.Close behind OpenOk, {} of its {} bytes in OpenOk's segment: the close is never acted on: {}", k, close_frame().len(), detail));
        return rep;
    }
    if rep.inconclusive.is_some() || !rep.violations.is_empty() {
        return rep;
    }
    let want = "ServerClosedConnection(320,CONNECTION_FORCED-glued)".to_string();
    let open = res.hist.conn.iter().find_map(|c| if let ConnRec::Open { result, .. } = c { Some(result.clone()) } else { None });
    let close = res.hist.conn.iter().find_map(|c| if let ConnRec::Close { result, .. } = c { Some(result.clone()) } else { None });
    let ok = match (&open, &close) {
        // the attempt itself may already report the close (it arrived before open returned) ...
        (Some(Err(e)), _) => *e == want,
        // ... or the connection is returned and then reports it
        (Some(Ok(())), Some(Err(e))) => *e == want,
        _ => false,
    };
    if !ok {
        rep.violate("ending", "close-behind-open-ok", format!("Connection.Close(320) behind OpenOk ({} of {} bytes in the same segment): open returned {:?}, close returned {:?}; expected the server's close to be reported", k, close_frame().len(), open, close));
        return rep;
    }
    rep.nontrivial = true;
    rep.distinct = spec.seed ^ 0x5_0000 ^ ((k as u64) << 20);
    rep
}

/// A fixed, non-reactive server stream made of real frames, from a seed.
fn build_stream(seed: u64) -> Stream {
    let mut cs = ChoiceStream::generate(seed ^ 0xC06);
    let mut bytes = Vec::new();
    let mut boundaries = vec![0usize];
    let mut deliveries = Vec::new();
    let tags = ["ctag-1-0", "ctag-2-0"];
    let n_items = 2 + cs.choose("n_items", 10) as usize;
    let mut dtag = [0u64; 2];
    let push_frame = |bytes: &mut Vec<u8>, boundaries: &mut Vec<usize>, f: Vec<u8>| {
        bytes.extend_from_slice(&f);
        boundaries.push(bytes.len());
    };
    let mut gen_delivery = |cs: &mut ChoiceStream, bytes: &mut Vec<u8>, boundaries: &mut Vec<usize>, record: Option<&mut Vec<(usize, u64, Vec<u8>, usize)>>| {
        let c = cs.choose("consumer", 2) as usize;
        let ch = (c + 1) as u16;
        dtag[c] += 1;
        let mut len = *pick(cs, "body_len", &[0usize, 1, 10, 500, 4000, 4089, 5000, 9000]);
        // now and then one body frame far beyond every buffer quantum of the reader (frame_max is 131072 here)
        let big = cs.choose("big_frame", 14) == 0;
        if big {
            len = *pick(cs, "big_len", &[16_377usize, 17_000, 40_000, 70_000]);
        }
        let body: Vec<u8> = (0..len).map(|i| (i as u8).wrapping_mul(13).wrapping_add(dtag[c] as u8)).collect();
        let mut f = Vec::new();
        wire::method(&mut f, ch, &AMQPClass::Basic(B::Deliver(basic::Deliver { consumer_tag: tags[c].to_string(), delivery_tag: dtag[c], redelivered: false, exchange: "ex".into(), routing_key: format!("rk{}", dtag[c]) })));
        push_frame(bytes, boundaries, f);
        let mut f = Vec::new();
        wire::header(&mut f, ch, 60, len as u64, &AMQPProperties::default().with_message_id(format!("m{}-{}", c, dtag[c])));
        push_frame(bytes, boundaries, f);
        let mut pos = 0;
        while pos < len {
            let piece = match if big { 0 } else { cs.choose("piece", 3) } {
                0 => len - pos,
                1 => (len - pos).min(4088),
                _ => (len - pos).min(1 + cs.choose("piece_small", 600) as usize),
            };
            let mut f = Vec::new();
            wire::body(&mut f, ch, &body[pos..pos + piece]);
            push_frame(bytes, boundaries, f);
            pos += piece;
        }
        if let Some(r) = record {
            r.push((c, dtag[c], body, bytes.len()));
        }
    };
    for _ in 0..n_items {
        match cs.choose("item", 8) {
            0 => {
                let mut f = Vec::new();
                wire::heartbeat(&mut f);
                push_frame(&mut bytes, &mut boundaries, f);
            }
            1 => {
                let mut f = Vec::new();
                wire::method(&mut f, 0, &AMQPClass::Connection(Cn::Blocked(connection::Blocked { reason: "alarm".into() })));
                push_frame(&mut bytes, &mut boundaries, f);
            }
            2 => {
                let mut f = Vec::new();
                wire::method(&mut f, 1, &AMQPClass::Basic(B::Ack(basic::Ack { delivery_tag: 3, multiple: true })));
                push_frame(&mut bytes, &mut boundaries, f);
            }
            _ => gen_delivery(&mut cs, &mut bytes, &mut boundaries, Some(&mut deliveries)),
        }
    }
    let (ending, expect_error, then_eof) = match cs.choose("ending", 7) {
        0 => {
            // bad end octet on an otherwise fine heartbeat-sized method frame
            let mut f = Vec::new();
            wire::method(&mut f, 0, &AMQPClass::Connection(Cn::Unblocked(connection::Unblocked {})));
            let n = f.len();
            f[n - 1] = 0x00;
            push_frame(&mut bytes, &mut boundaries, f);
            ("malformed: bad end octet", "MalformedFrame".to_string(), false)
        }
        1 => {
            let mut f = Vec::new();
            wire::raw(&mut f, 7, 1, &[1, 2, 3], 0xCE);
            push_frame(&mut bytes, &mut boundaries, f);
            ("malformed: unknown frame type", "MalformedFrame".to_string(), false)
        }
        2 => {
            let mut f = Vec::new();
            wire::raw(&mut f, 1, 1, &[0, 60, 0, 60, 1, 2], 0xCE); // Basic.Deliver with truncated arguments
            push_frame(&mut bytes, &mut boundaries, f);
            ("malformed: short arguments", "MalformedFrame".to_string(), false)
        }
        3 => {
            // a body frame whose end octet is wrong, on a channel in the middle of nothing
            let mut f = Vec::new();
            wire::body(&mut f, 2, &[1, 2, 3, 4, 5]);
            let n = f.len();
            f[n - 1] = 0xCF;
            push_frame(&mut bytes, &mut boundaries, f);
            ("malformed: bad end octet on a body frame", "MalformedFrame".to_string(), false)
        }
        4 | 5 => {
            let code = 300 + cs.choose("code", 100) as u16;
            let mut f = Vec::new();
            wire::method(&mut f, 0, &AMQPClass::Connection(Cn::Close(connection::Close { reply_code: code, reply_text: "bye".into(), class_id: 0, method_id: 0 })));
            push_frame(&mut bytes, &mut boundaries, f);
            ("connection close", format!("ServerClosedConnection({},bye)", code), false)
        }
        _ => ("eof", "UnexpectedSocketClose".to_string(), true),
    };
    // frames after a frame that cannot be parsed must not be acted on (after a Close the server
    // sends nothing; after EOF there is nothing)
    if !then_eof && ending.starts_with("malformed") {
        for _ in 0..(1 + cs.choose("trailing", 2)) {
            gen_delivery(&mut cs, &mut bytes, &mut boundaries, None);
        }
    }
    Stream { bytes, boundaries, deliveries, ending, expect_error, then_eof }
}

impl Scenario for C06 {
    fn property(&self) -> &'static str {
        "C06"
    }
    fn level(&self) -> &'static str {
        "fault_enumeration"
    }
    fn rule(&self) -> String {
        "Per seeded server stream (2-12 items of real frames: heartbeats, blocked notices, acks, deliveries to two consumers with bodies 0..9000 bytes in frames from a few bytes to beyond the 4096-byte read quantum, now and then one body frame of 16-70 kB; ended by a bad end octet (method or body frame) / unknown frame type / short arguments, by EOF, or by Connection.Close, followed by further valid deliveries that must not be acted on) the passive client (two consumers blocked on their queues) receives the stream under many segmentations: whole; every single cut (thorough: every offset; quick: every frame boundary +-1 and every 29th offset); random multi-cuts; 1-byte dribble for short streams; each segment 5 ms of simulated time after the previous one, with short reads. Oracle: each consumer obtains exactly the deliveries before the ending, intact and in order (nothing after it), Connection::close reports MalformedFrame / UnexpectedSocketClose / ServerClosedConnection as the stream dictates, and every delivery is obtained after the segment carrying the last byte of its last frame arrived and before the next segment arrives (\"as soon as its last byte has arrived\"). Differential by construction: all segmentations of one stream are compared with the same reference. Non-trivial = a cut fell strictly inside a frame; distinct = (stream seed, cut set).".to_string()
    }
    fn plan(&self, thorough: bool, seed: u64) -> Vec<CaseSpec> {
        let n_streams = if thorough { 240 } else { 40 };
        let mut v = Vec::new();
        for s in seeds_for("C06", "stream", seed, n_streams) {
            let st = build_stream(s);
            let l = st.bytes.len();
            // 0 = whole
            v.push(CaseSpec { family: "cuts".into(), seed: s, params: vec![0], choices: None });
            let mut offs: Vec<usize> = Vec::new();
            // streams with a very large frame: every 7th (97th) offset, plus every frame boundary +-1 as always
            let stride = if thorough { if l > 14_000 { 7 } else { 1 } } else if l > 14_000 { 97 } else { 29 };
            let mut k = 1;
            while k < l {
                offs.push(k);
                k += stride;
            }
            for b in &st.boundaries {
                for d in [-1i64, 0, 1] {
                    let x = *b as i64 + d;
                    if x > 0 && (x as usize) < l {
                        offs.push(x as usize);
                    }
                }
            }
            offs.sort();
            offs.dedup();
            for k in offs {
                v.push(CaseSpec { family: "cuts".into(), seed: s, params: vec![1, k as i64], choices: None });
            }
            // random multi-cuts: params [2, n] -> drawn from the case's own choice stream
            for i in 0..(if thorough { 40 } else { 12 }) {
                v.push(CaseSpec { family: "cuts".into(), seed: s, params: vec![2, i], choices: None });
            }
            if l <= 1500 {
                v.push(CaseSpec { family: "cuts".into(), seed: s, params: vec![3], choices: None });
            }
            // a preamble of real frames glued to the handshake's last frame: the first k bytes arrive in
            // the same segment as Connection.OpenOk, the rest 5 ms later (every k)
            for k in 0..=preamble().len() {
                v.push(CaseSpec { family: "cuts".into(), seed: s, params: vec![4, k as i64], choices: None });
            }
            // the same with a Connection.Close glued to OpenOk (a server that closes at once): whatever the cut,
            // the client must learn of the close
            for k in 0..=close_frame().len() {
                v.push(CaseSpec { family: "cuts".into(), seed: s, params: vec![5, k as i64], choices: None });
            }
        }
        v
    }
    fn run_case(&self, spec: &CaseSpec, text: bool) -> CaseReport {
        if spec.params.first().copied() == Some(5) {
            return run_close_glued(spec, text);
        }
        let st = build_stream(spec.seed);
        let l = st.bytes.len();
        let mode = spec.params.first().copied().unwrap_or(0);
        let mut cs = match &spec.choices {
            Some(c) => ChoiceStream::replay(c.clone()),
            None => ChoiceStream::generate(spec.seed ^ (mode as u64) << 32 ^ spec.params.get(1).copied().unwrap_or(0) as u64),
        };
        let cuts: Vec<usize> = match mode {
            0 => vec![],
            1 => vec![spec.params.get(1).copied().unwrap_or(1) as usize],
            2 => {
                let n = 2 + cs.choose("n_cuts", 12) as usize;
                (0..n).map(|_| 1 + cs.choose("cut_at", (l - 1).max(1) as u32) as usize).collect()
            }
            4 => vec![],
            _ => (1..l).collect(),
        };
        let mut broker = BrokerCfg::default();
        broker.fixed_consumer_tags = true;
        broker.deliveries_min = 0;
        broker.deliveries_max = 0;
        broker.s2c_lat_min_ns = 1_000;
        broker.s2c_lat_max_ns = 1_000;
        broker.eof_after_server_close = true;
        // streams that end with the server closing the socket: in half of the runs the end of stream arrives in
        // the same instant as the last segment (FIN on the last data segment), otherwise one gap later
        if st.then_eof && cs.choose("eof_with_last_segment", 2) == 1 {
            broker.raw_eof_with_last_segment = true;
        }
        // a third of the runs: empty readable wake-ups between segments (a read that answers would-block at once)
        if cs.choose("empty_wakeups", 3) == 0 {
            broker.spurious_permille = 400;
        }
        if mode == 4 {
            broker.glue_after_open_ok = Some((preamble(), spec.params.get(1).copied().unwrap_or(0) as usize, GAP));
        }
        broker.script.push((Trigger::AtTime(T0), Action::RawStream { bytes: st.bytes.clone(), cuts: cuts.clone(), gap_ns: GAP, then_eof: st.then_eof }));
        let mut net = NetCfg::default();
        net.c2s_lat_min_ns = 1_000;
        net.c2s_lat_max_ns = 1_000;
        net.rd_short_permille = *pick(&mut cs, "rd_short", &[0u32, 0, 400]);
        let threads = vec![
            ThreadPlan { chan_ids: vec![Some(1)], ops: vec![(0, Op::Consume { queue: "qa".into(), no_local: false, no_ack: true, exclusive: false, args: 0, via_queue: false }), (0, Op::Drain { slot: 0, max: None, acks: vec![], via_consumer: false })], close_channels: true },
            ThreadPlan { chan_ids: vec![Some(2)], ops: vec![(0, Op::Consume { queue: "qb".into(), no_local: false, no_ack: true, exclusive: false, args: 0, via_queue: false }), (0, Op::Drain { slot: 0, max: None, acks: vec![], via_consumer: false })], close_channels: true },
        ];
        let plan = SessionPlan { opts: ConnOpts::default(), tuning: Tuning::default(), threads, owner_ops: vec![OwnerOp::ListenBlocked], close: CloseKind::Close, join_before_close: true };
        let mut sched = SchedCfg::default();
        sched.stick_pct = *pick(&mut cs, "stick", &[90u32, 50, 0]);
        sched.hang_after_ns = 60_000_000_000;
        sched.step_cap = 1_500_000;
        let gen = Generated { plan, net, broker, sched, frame_max: 131072 };
        let (res, world) = run_generated(&gen, cs, text, |_| {});
        let mut rep = CaseReport::default();
        fill_common(&mut rep, &res, &world);
        let mode_name = ["whole", "single cut", "random cuts", "1-byte dribble", "preamble glued to OpenOk"][mode as usize % 5];
        rep.count("c06.runs_on_streams_with_a_frame_over_16k", st.boundaries.windows(2).any(|w| w[1] - w[0] > 16_384) as u64);
        rep.sample = serde_json::json!({"stream_seed": spec.seed, "stream_bytes": l, "frames": st.boundaries.len() - 1, "ending": st.ending, "expected_deliveries": st.deliveries.len(), "cuts": if cuts.len() > 20 { vec![cuts.len()] } else { cuts.clone() }, "mode": mode_name});
        for p in &res.run.panics {
            rep.violate("panic", format!("{}@{}", p.thread, p.location), format!("{} panicked: {}", p.thread, p.message));
        }
        if let Some((sig, detail)) = hang_sig(&res.run.outcome) {
            rep.violate("hang", sig, format!("stream {} ({}), cuts {:?}: {}", spec.seed, st.ending, cuts.iter().take(10).collect::<Vec<_>>(), detail));
            return rep;
        }
        if rep.inconclusive.is_some() || !rep.violations.is_empty() {
            return rep;
        }
        if let Some(e) = res.hist.conn.iter().find_map(|c| if let ConnRec::Open { result: Err(e), .. } = c { Some(e.clone()) } else { None }) {
            rep.violate("ending", "handshake-frames-not-decoded", format!("the cooperative handshake (real frames, whole segments) failed: {}", e));
            return rep;
        }
        let n = world.net.lock().unwrap();
        // where the stream starts in the server->client byte stream
        let start = world.broker.sent.iter().find(|s| matches!(s.kind, SentKind::Raw)).map(|s| s.s2c_start);
        let start = match start {
            Some(x) => x,
            None => {
                // the cooperative part of the session (real frames, whole segments, would-blocks) must not end the
                // connection before the stream under test even starts
                let close = res.hist.conn.iter().find_map(|c| if let ConnRec::Close { result, .. } = c { Some(result.clone()) } else { None });
                if let Some(Err(e)) = close {
                    rep.violate("ending", format!("before-the-stream:{}", e.split('(').next().unwrap_or("")), format!("the connection ended with {} before the server stream under test began (only the handshake, channel opens and consumes had happened)", e));
                    return rep;
                }
                rep.inconclusive = Some("stream was never injected".into());
                return rep;
            }
        };
        let ctx = format!("stream {} ({} bytes, ends with {}), cuts {:?}", spec.seed, l, st.ending, cuts.iter().take(12).collect::<Vec<_>>());
        // per consumer
        for c in 0..2usize {
            let want: Vec<&(usize, u64, Vec<u8>, usize)> = st.deliveries.iter().filter(|d| d.0 == c).collect();
            let got: Vec<&GotMsg> = res
                .hist
                .ops
                .iter()
                .filter(|o| o.thread == c + 1)
                .filter_map(|o| if let OpResult::Drained { msgs, .. } = &o.result { Some(msgs.iter().collect::<Vec<_>>()) } else { None })
                .flatten()
                .collect();
            if got.len() != want.len() {
                let kind = if got.len() > want.len() { "frame-after-end-acted-on-or-duplicate" } else { "frame-lost" };
                rep.violate("frames-acted-on", kind, format!("{}: consumer {} obtained {} deliveries, the bytes carry {} before the ending", ctx, c, got.len(), want.len()));
                return rep;
            }
            for (i, (g, w)) in got.iter().zip(want.iter()).enumerate() {
                if g.delivery_tag != w.1 || g.body != w.2 {
                    rep.violate("frames-acted-on", "content-or-order", format!("{}: consumer {} delivery #{}: tag {} / {} bytes, expected tag {} / {} bytes", ctx, c, i, g.delivery_tag, g.body.len(), w.1, w.2.len()));
                    return rep;
                }
                // timing: after the segment carrying its last byte, before the next one
                let end_abs = start + w.3;
                let idx = n.arrivals.iter().position(|a| a.1 >= end_abs);
                if let Some(ix) = idx {
                    let t_a = n.arrivals[ix].0;
                    if g.recv_ns < t_a {
                        rep.violate("timing", "before-last-byte", format!("{}: consumer {} delivery #{} obtained at {} ns, its last byte arrived at {} ns", ctx, c, i, g.recv_ns, t_a));
                        return rep;
                    }
                    if let Some(next) = n.arrivals.get(ix + 1) {
                        if g.recv_ns >= next.0 && next.0 >= t_a + GAP / 2 {
                            rep.violate("timing", "not-as-soon-as-complete", format!("{}: consumer {} delivery #{} complete at {} ns but only handed on at {} ns, after the next segment arrived ({} ns)", ctx, c, i, t_a, g.recv_ns, next.0));
                            return rep;
                        }
                    }
                    rep.count("c06.deliveries_timed", 1);
                }
            }
        }
        let close = res.hist.conn.iter().find_map(|c| if let ConnRec::Close { result, .. } = c { Some(result.clone()) } else { None });
        let got_err = match close {
            Some(Ok(())) => "Ok".to_string(),
            Some(Err(e)) => e,
            None => {
                let e = res.hist.conn.iter().find_map(|c| if let ConnRec::Open { result: Err(e), .. } = c { Some(e.clone()) } else { None });
                rep.violate("ending", "handshake-frames-not-decoded", format!("the cooperative handshake (real frames, whole segments) failed: {:?}", e));
                return rep;
            }
        };
        if got_err != st.expect_error {
            rep.violate("ending", format!("{}-instead-of-{}", got_err.split('(').next().unwrap_or(""), st.expect_error.split('(').next().unwrap_or("")), format!("{}: connection ended with {}, the bytes dictate {}", ctx, got_err, st.expect_error));
            return rep;
        }
        if mode == 4 {
            rep.count("c06.glued_to_open_ok", 1);
        }
        rep.count("c06.eof_with_last_segment", gen.broker.raw_eof_with_last_segment as u64);
        let inside = cuts.iter().any(|c| !st.boundaries.contains(c)) || mode == 4;
        rep.count("c06.cut_inside_frame", inside as u64);
        rep.count(&format!("c06.ending.{}", st.ending.split(':').next().unwrap_or("")), 1);
        rep.nontrivial = inside || mode == 0;
        let mut h = spec.seed;
        for c in &cuts {
            h = (h ^ *c as u64).wrapping_mul(0x100000001b3);
        }
        if mode == 4 {
            h = (h ^ 0x4_0000 ^ spec.params.get(1).copied().unwrap_or(0) as u64).wrapping_mul(0x100000001b3);
        }
        rep.distinct = h;
        rep
    }
}
