//! C17 — heartbeats: sent when idle, enforced on the server, off when 0.
use super::*;
use crate::broker::{Action, BrokerCfg, Trigger};
use crate::client::*;
use crate::gen::{pick, Generated};
use crate::session::*;
use crate::stream::NetCfg;
use crate::wire;
use amiquip_simrt::SchedCfg;

pub struct C17;

const SEC: u64 = 1_000_000_000;
const INTERVALS: [u16; 7] = [0, 1, 2, 3, 5, 10, 60];
const PATTERNS: [&str; 7] = ["idle-client-live-server", "server-goes-silent", "server-talks-at-least-every-h", "client-busy-server-heartbeats", "one-frame-trickling-in", "server-goes-silent-then-client-closes", "server-silent-instead-of-open-ok"];

impl Scenario for C17 {
    fn property(&self) -> &'static str {
        "C17"
    }
    fn rule(&self) -> String {
        "Systematic grid: negotiated interval h in {0,1,2,3,5,10,60} s x 5 traffic patterns, each x seeds (offsets, jitter of the real timer wheel's wake-ups, latencies, schedules) on the simulated clock: (1) idle client, server heartbeats every h/2 for 20h: every gap between consecutive client->server bytes <= h + 0.3 s and at least one heartbeat frame per h; (2) server silent from a drawn instant: Connection dies with MissedServerHeartbeats at t in [t_last_inbound + 2h - 0.1 s, t_last_inbound + 2h + 0.3 s]; (3) server sends something (heartbeat, blocked notice) with gaps drawn in (0.1h, 0.98h) for 50h: never declared dead, close = Ok; (4) client publishing with gaps < h while the server only sends heartbeats: no client heartbeat needed, still alive; (5) one legal frame trickling in one byte at a time with gaps drawn in (0.1h, 0.95h), for 10-50 bytes, i.e. far longer than 2h: never declared dead. h = 0: no heartbeat frame in 10 000 s of mutual silence and the connection still closes cleanly. 0.3 s covers the real wheel's 100 ms tick, its +-50 ms wake-up rounding and the 5 ms fudge in Heartbeat::fire. Non-trivial = the run covered >= 20 (pattern 3: 50) intervals of simulated time or reached the death; distinct = (h, pattern, seed).".to_string()
    }
    fn level(&self) -> &'static str {
        "exploration"
    }
    fn plan(&self, thorough: bool, seed: u64) -> Vec<CaseSpec> {
        let per = if thorough { 1500 } else { 150 };
        let mut v = Vec::new();
        for (hi, _) in INTERVALS.iter().enumerate() {
            for p in 0..PATTERNS.len() {
                for s in seeds_for("C17", "hb", seed.wrapping_add((hi * 10 + p) as u64), per) {
                    v.push(CaseSpec { family: "hb".into(), seed: s, params: vec![hi as i64, p as i64], choices: None });
                }
            }
        }
        v
    }
    fn run_case(&self, spec: &CaseSpec, text: bool) -> CaseReport {
        let mut cs = spec.stream();
        let h = INTERVALS[spec.params.first().copied().unwrap_or(1) as usize % INTERVALS.len()];
        let pat = spec.params.get(1).copied().unwrap_or(0) as usize % PATTERNS.len();
        let hs = h as u64 * SEC;
        let mut rep = CaseReport::default();
        let mut broker = BrokerCfg::default();
        // who asks for what: the negotiated value is the minimum (0 wins)
        let (cli_hb, srv_hb) = if h == 0 {
            *pick(&mut cs, "zero_side", &[(0u16, 60u16), (60, 0), (0, 0)])
        } else {
            *pick(&mut cs, "hb_sides", &[(h, h), (h, 600), (600, h)])
        };
        broker.tune = (2047, 131072, srv_hb);
        broker.s2c_lat_min_ns = 10_000;
        broker.s2c_lat_max_ns = *pick(&mut cs, "s2c_lat", &[10_000u64, 2_000_000, 40_000_000]);
        let mut net = NetCfg::default();
        net.c2s_lat_min_ns = 10_000;
        net.c2s_lat_max_ns = 10_000;
        let mut owner_ops = Vec::new();
        let mut threads = Vec::new();
        let idle_total;
        let mut silence_at = None;
        let mut late_open_ok: Option<(u64, u64)> = None;
        match pat {
            6 if h > 0 => {
                // the heartbeat is negotiated with TuneOk; the server reads Open and never answers: the attempt
                // must fail with MissedServerHeartbeats about 2h after the server's last byte (the Tune)
                broker.silent_instead_of_open_ok = true;
                idle_total = 0;
            }
            0 | 6 => {
                idle_total = if h == 0 { 10_000 * SEC } else { 20 * hs };
                if h > 0 {
                    broker.heartbeat_every_ns = Some(hs / 2);
                }
                // one run in three: the server is slow with its OpenOk, which arrives about when a heartbeat timer
                // started at Tune falls due, while the I/O thread is descheduled: the timer's wake-up and the
                // OpenOk reach it in one batch, in either order; the timers must survive the end of the handshake
                if h > 0 && pat == 0 && cs.choose("late_open_ok", 3) == 0 {
                    let k = 1 + cs.choose("late_open_ok_k", 3) as u64;
                    let c = k * hs / 2 + 50_000_000;
                    let from = c.saturating_sub(150_000_000);
                    broker.open_ok_delay_ns = from + cs.choose("late_open_ok_ms", 300) as u64 * 1_000_000;
                    late_open_ok = Some((from, c + 160_000_000));
                }
                owner_ops.push(OwnerOp::SleepNs(idle_total));
            }
            1 | 5 => {
                // silent from t0; the owner sleeps well past the expected death (pattern 5: it calls close()
                // within 1.6 h of the silence beginning, and the close handshake is never answered either)
                let t0 = SEC / 10 + cs.choose("silence_at_ms", 3000) as u64 * 1_000_000 + if h > 0 { cs.choose("silence_at_h", 3) as u64 * hs } else { 0 };
                silence_at = Some(t0);
                if h > 0 {
                    broker.heartbeat_every_ns = Some(hs / 3 + 1);
                }
                if h > 0 {
                    // with heartbeats off the server is quiet anyway; it still answers the final close
                    broker.script.push((Trigger::AtTime(t0), Action::Silence));
                }
                idle_total = if h == 0 {
                    10_000 * SEC
                } else if pat == 5 {
                    t0 + (cs.choose("close_after_silence_pm", 1600) as u64 * hs) / 1000
                } else {
                    t0 + 3 * hs + 2 * SEC
                };
                owner_ops.push(OwnerOp::SleepNs(idle_total));
            }
            2 => {
                idle_total = if h == 0 { 10_000 * SEC } else { 50 * hs };
                if h > 0 {
                    let mut t = SEC / 10;
                    let mut hbf = Vec::new();
                    wire::heartbeat(&mut hbf);
                    while t < idle_total + hs {
                        let gap = hs / 10 + (cs.choose("srv_gap_pm", 880) as u64 * hs) / 1000;
                        t += gap;
                        let a = match cs.choose("srv_send_kind", 3) {
                            0 => Action::Blocked(format!("alarm-{}", t / 1_000_000)),
                            1 => Action::Unblocked,
                            _ => Action::Raw { ch: 0, frames: vec![hbf.clone()] },
                        };
                        broker.script.push((Trigger::AtTime(t), a));
                    }
                }
                owner_ops.push(OwnerOp::ListenBlocked);
                owner_ops.push(OwnerOp::SleepNs(idle_total));
            }
            4 => {
                // one legal frame whose bytes arrive one at a time, each gap below h, the whole frame
                // taking far longer than 2h: any inbound byte is liveness
                let reason = "x".repeat(10 + cs.choose("trickle_len", 40) as usize);
                let mut f = Vec::new();
                wire::method(&mut f, 0, &amq_protocol::protocol::AMQPClass::Connection(amq_protocol::protocol::connection::AMQPMethod::Blocked(amq_protocol::protocol::connection::Blocked { reason })));
                let unit = if h == 0 { SEC } else { hs };
                let gap = unit / 10 + (cs.choose("trickle_gap_pm", 850) as u64 * unit) / 1000;
                let cuts: Vec<usize> = (1..f.len()).collect();
                let total = gap * f.len() as u64;
                broker.script.push((Trigger::AtTime(SEC / 10), Action::RawStream { bytes: f, cuts, gap_ns: gap, then_eof: false }));
                idle_total = total + 2 * unit;
                // afterwards the server keeps talking (heartbeats must not be mixed into the trickling frame)
                if h > 0 {
                    let mut hbf = Vec::new();
                    wire::heartbeat(&mut hbf);
                    let mut t = SEC / 10 + total + hs / 3;
                    while t < SEC / 10 + idle_total + 2 * hs {
                        broker.script.push((Trigger::AtTime(t), Action::Raw { ch: 0, frames: vec![hbf.clone()] }));
                        t += hs / 2;
                    }
                }
                owner_ops.push(OwnerOp::ListenBlocked);
                owner_ops.push(OwnerOp::SleepNs(idle_total));
            }
            _ => {
                // a worker publishes with gaps below h; server heartbeats only
                idle_total = if h == 0 { 2_000 * SEC } else { 20 * hs };
                if h > 0 {
                    broker.heartbeat_every_ns = Some(hs / 2);
                }
                let mut ops: Vec<(usize, Op)> = Vec::new();
                let n_pubs = 40;
                for i in 0..n_pubs {
                    ops.push((0, Op::Publish { exchange: "".into(), rk: format!("k{}", i), mandatory: false, immediate: false, props: 0, body_len: 10, via_exchange: false }));
                    ops.push((0, Op::Gate(100 + i as u64)));
                }
                threads.push(ThreadPlan { chan_ids: vec![None], ops, close_channels: true });
            }
        }
        let opts = ConnOpts { heartbeat: cli_hb, ..ConnOpts::default() };
        let plan = SessionPlan { opts, tuning: Tuning::default(), threads, owner_ops, close: CloseKind::Close, join_before_close: true };
        let mut sched = SchedCfg::default();
        sched.stick_pct = *pick(&mut cs, "stick", &[50u32, 90, 0]);
        sched.hang_after_ns = 40_000 * SEC;
        sched.step_cap = 2_000_000;
        let gen = Generated { plan, net, broker, sched, frame_max: 131072 };
        // pattern 3: gates opened with gaps < h (or 50 s when h = 0)
        let mut gate_times = Vec::new();
        if pat == 3 {
            let unit = if h == 0 { 50 * SEC } else { hs };
            let mut t = SEC / 5;
            for i in 0..40u64 {
                t += unit / 10 + (cs.choose("pub_gap_pm", 850) as u64 * unit) / 1000;
                gate_times.push((100 + i, t));
            }
        }
        let (res, world) = run_generated(&gen, cs, text, move |_| {
            for (g, t) in gate_times {
                crate::world::call_in(t, move |_| amiquip_simrt::gate_open(g));
            }
            if let Some((from, to)) = late_open_ok {
                crate::world::call_in(from, move |_| amiquip_simrt::stall_thread_named("amiquip-io", to));
            }
        });
        fill_common(&mut rep, &res, &world);
        rep.sample = serde_json::json!({"h": h, "pattern": PATTERNS[pat], "client_option": cli_hb, "server_tune": srv_hb, "silence_at_ns": silence_at, "simulated_ns": res.run.fin.sim_ns});
        rep.count(&format!("c17.pattern.{}", PATTERNS[pat]), 1);
        rep.count("c17.late_open_ok_with_stalled_io_thread", late_open_ok.is_some() as u64);
        for p in &res.run.panics {
            rep.violate("panic", format!("{}@{}", p.thread, p.location), format!("{} panicked: {}", p.thread, p.message));
        }
        if let Some((sig, detail)) = hang_sig(&res.run.outcome) {
            rep.violate("hang", sig, format!("h={} {}: {}", h, PATTERNS[pat], detail));
            return rep;
        }
        if rep.inconclusive.is_some() {
            return rep;
        }
        let n = world.net.lock().unwrap();
        let negotiated = world.broker.negotiated.as_ref().map(|t| t.heartbeat).unwrap_or(0);
        if negotiated != h {
            rep.violate("negotiated", "value", format!("client {} server {}: negotiated heartbeat {} (expected {})", cli_hb, srv_hb, negotiated, h));
            return rep;
        }
        if pat == 6 && h > 0 {
            let open = res.hist.conn.iter().find_map(|c| if let ConnRec::Open { result, .. } = c { Some(result.clone()) } else { None });
            if open != Some(Err("MissedServerHeartbeats".to_string())) {
                rep.violate("silent-before-open-ok", format!("{:?}", open).chars().take(40).collect::<String>(), format!("h={}: the server fell silent after Tune / Open: open returned {:?}", h, open));
                return rep;
            }
            let last_in = n.last_inbound_ns;
            let died = n.dropped_ns;
            if died + 100_000_000 < last_in + 2 * hs || died > last_in + 2 * hs + 300_000_000 {
                rep.violate("death-time", if died < last_in + 2 * hs { "early" } else { "late" }, format!("h={}: silent before OpenOk: last inbound byte at {} ns, attempt failed at {} ns = {:.3} s of silence (2h = {} s)", h, last_in, died, (died.saturating_sub(last_in)) as f64 / 1e9, 2 * h));
                return rep;
            }
            rep.count("c17.deaths_timed", 1);
            rep.nontrivial = true;
            rep.distinct = spec.seed ^ ((h as u64) << 48) ^ ((pat as u64) << 44);
            return rep;
        }
        let close = res.hist.conn.iter().find_map(|c| if let ConnRec::Close { result, invoke_ns, .. } = c { Some((result.clone(), *invoke_ns)) } else { None });
        let (close_result, close_invoke_ns) = match close {
            Some(x) => x,
            None => {
                let e = res.hist.conn.iter().find_map(|c| if let ConnRec::Open { result: Err(e), .. } = c { Some(e.clone()) } else { None });
                rep.violate("setup", "open-failed", format!("cooperative handshake failed: {:?}", e));
                return rep;
            }
        };
        // client->server heartbeat frames and write gaps
        let frames = wire::split_stream(&n.c2s, false).map(|x| x.1).unwrap_or_default();
        let hb_frames: Vec<usize> = frames.iter().filter(|f| f.ty == 8).map(|f| f.offset).collect();
        let t_open = world.broker.sent.iter().find(|s| matches!(s.kind, crate::broker::SentKind::Handshake("open-ok"))).map(|s| s.time_ns).unwrap_or(0);
        let dead_at = if n.dropped_ns > 0 && close_result.is_err() { Some(n.dropped_ns) } else { None };
        // once close() has been called the client's Connection.Close is the last frame it may ever write
        // (C08): heartbeats legitimately stop there, so the outbound-gap window ends at that call
        let end_of_life = dead_at.unwrap_or(close_invoke_ns).min(close_invoke_ns);
        let mut times: Vec<u64> = n.writes.iter().map(|w| w.time_ns).filter(|t| *t >= t_open && *t <= end_of_life).collect();
        times.insert(0, t_open);
        times.push(end_of_life);
        let max_gap = times.windows(2).map(|w| w[1] - w[0]).max().unwrap_or(0);
        rep.count("c17.client_heartbeat_frames", hb_frames.len() as u64);
        if h == 0 {
            if !hb_frames.is_empty() {
                rep.violate("heartbeat-when-off", "frame-sent", format!("negotiated heartbeat 0 (client {}, server {}), yet {} heartbeat frames were written", cli_hb, srv_hb, hb_frames.len()));
                return rep;
            }
            if close_result != Ok(()) {
                rep.violate("silence-fatal-when-off", format!("{:?}", close_result).chars().take(40).collect::<String>(), format!("heartbeats are off, server quiet for {} s: close returned {:?}", idle_total / SEC, close_result));
                return rep;
            }
            rep.nontrivial = res.run.fin.sim_ns >= 1_000 * SEC;
        } else {
            let tol = 300_000_000u64;
            match pat {
                1 | 5 => {
                    // death time relative to the last inbound byte
                    let want = "MissedServerHeartbeats".to_string();
                    if close_result != Err(want.clone()) {
                        rep.violate("silent-server", format!("{:?}", close_result).chars().take(40).collect::<String>(), format!("h={}: server silent from {} ns: close returned {:?}", h, silence_at.unwrap_or(0), close_result));
                        return rep;
                    }
                    let last_in = n.last_inbound_ns;
                    let died = n.dropped_ns;
                    let lo = last_in + 2 * hs - 100_000_000;
                    let hi = last_in + 2 * hs + tol;
                    if died < lo {
                        rep.violate("death-time", "early", format!("h={}: last inbound byte at {} ns, declared dead at {} ns = {:.3} s of silence (< 2h - 0.1 s)", h, last_in, died, (died - last_in) as f64 / 1e9));
                        return rep;
                    }
                    if died > hi {
                        rep.violate("death-time", "late", format!("h={}: last inbound byte at {} ns, declared dead at {} ns = {:.3} s of silence (> 2h + 0.3 s)", h, last_in, died, (died - last_in) as f64 / 1e9));
                        return rep;
                    }
                    rep.count("c17.deaths_timed", 1);
                    rep.nontrivial = true;
                }
                _ => {
                    if close_result != Ok(()) {
                        rep.violate("declared-dead", format!("{:?}", close_result).chars().take(40).collect::<String>(), format!("h={} {}: the server sent something at least every h, yet close returned {:?} (died at {:?} ns)", h, PATTERNS[pat], close_result, dead_at));
                        return rep;
                    }
                    rep.nontrivial = res.run.fin.sim_ns >= 20 * hs;
                }
            }
            // outbound: never more than h + 0.3 s without a byte while the connection lives
            if max_gap > hs + tol {
                let i = times.windows(2).position(|w| w[1] - w[0] == max_gap).unwrap_or(0);
                rep.violate("tx-gap", "too-long", format!("h={} {}: {:.3} s without a client->server byte (from {} ns to {} ns), {} heartbeat frames in the run", h, PATTERNS[pat], max_gap as f64 / 1e9, times[i], times[i + 1], hb_frames.len()));
                return rep;
            }
            if pat == 0 && (hb_frames.len() as u64) < (20 * hs / (hs + tol)).saturating_sub(2) {
                rep.violate("tx-gap", "too-few-heartbeats", format!("h={}: idle for 20h but only {} heartbeat frames", h, hb_frames.len()));
                return rep;
            }
        }
        rep.distinct = spec.seed ^ ((h as u64) << 48) ^ ((pat as u64) << 44);
        rep
    }
}
