//! C01 — outbound byte stream is the protocol header plus whole frames, in order.
use super::*;
use crate::client::*;
use crate::expect::*;
use crate::gen::*;
use crate::wire;
use std::collections::BTreeMap;

pub struct C01;

/// The wire oracle, also used by C18: envelope, full decodability, and per
/// channel the frames of the issued operations, each once, in issue order.
pub fn wire_oracle(rep: &mut CaseReport, oracle_prefix: &str, c2s: &[u8], hist: &History, frame_max: usize, complete: bool, check_sequence: bool) {
    let (hdr, frames, used) = match wire::split_stream(c2s, complete) {
        Ok(x) => x,
        Err(e) => {
            rep.violate(&format!("{}envelope", oracle_prefix), format!("{:?}", e).split(|c: char| !c.is_alphanumeric()).next().unwrap_or("").to_string(), format!("client->server stream is not header + whole frames: {:?}", e));
            return;
        }
    };
    if !hdr && !c2s.is_empty() && complete {
        rep.violate(&format!("{}envelope", oracle_prefix), "short-header", format!("stream of {} bytes ends inside the protocol header", c2s.len()));
        return;
    }
    let _ = used;
    let mut per_ch: BTreeMap<u16, Vec<(usize, String)>> = BTreeMap::new();
    for f in &frames {
        match wire::decode(f) {
            Some(fr) => {
                if let amq_protocol::frame::AMQPFrame::Heartbeat(_) = fr {
                    continue;
                }
                per_ch.entry(f.channel).or_default().push((f.offset, identity_of_frame(&fr)));
            }
            None => {
                rep.violate(&format!("{}undecodable", oracle_prefix), format!("type{}", f.ty), format!("frame at offset {} (type {}, channel {}, {} payload bytes) does not parse", f.offset, f.ty, f.channel, f.payload_len));
                return;
            }
        }
    }
    if !check_sequence {
        return;
    }
    let exps = expectations(hist, frame_max);
    for e in &exps {
        if !e.defined {
            rep.count("c01.channel_expectation_undefined", 1);
            per_ch.remove(&e.ch);
            continue;
        }
        let got = per_ch.remove(&e.ch).unwrap_or_default();
        let want: Vec<String> = e.frames.iter().map(|(f, _)| identity_of_exp(f)).collect();
        let gotids: Vec<&String> = got.iter().map(|(_, s)| s).collect();
        rep.count("wire.channels_sequence_checked", 1);
        rep.count("wire.frames_compared", want.len() as u64);
        let n = want.len().min(gotids.len());
        let mut first_diff = None;
        for i in 0..n {
            if &want[i] != gotids[i] {
                first_diff = Some(i);
                break;
            }
        }
        if first_diff.is_none() && want.len() != gotids.len() {
            first_diff = Some(n);
        }
        if let Some(i) = first_diff {
            let kind = if i >= gotids.len() {
                "missing"
            } else if i >= want.len() {
                "extra"
            } else if gotids[i + 1..].contains(&&want[i]) || want[i + 1..].contains(gotids[i]) {
                "reordered-or-lost"
            } else {
                "different"
            };
            let w = want.get(i).cloned().unwrap_or_else(|| "<nothing>".into());
            let gmsg = gotids.get(i).map(|s| s.to_string()).unwrap_or_else(|| "<nothing>".into());
            let src = e.frames.get(i).map(|(_, s)| s.clone()).unwrap_or_default();
            rep.violate(
                &format!("{}channel-sequence", oracle_prefix),
                kind,
                format!("channel {} frame #{}: expected {} (from {}), wire has {} (of {} expected / {} on the wire)", e.ch, i, trunc(&w), src, trunc(&gmsg), want.len(), gotids.len()),
            );
            return;
        }
    }
    // frames on channels nobody opened (channel 0 carries the connection handshake)
    for (ch, v) in per_ch {
        if ch != 0 && !v.is_empty() {
            rep.violate(&format!("{}channel-sequence", oracle_prefix), "unknown-channel", format!("{} frames on channel {} which no operation opened; first: {}", v.len(), ch, trunc(&v[0].1)));
            return;
        }
    }
}

fn trunc(s: &str) -> String {
    s.chars().take(90).collect()
}

impl Scenario for C01 {
    fn property(&self) -> &'static str {
        "C01"
    }
    fn rule(&self) -> String {
        "Seeded sessions: 1-4 client threads x 1-3 channels, <=40 operations of every kind, cooperative broker, write-side faults (short writes, would-block at any offset, byte-capped writes), random/PCT-free sticky schedulers. Non-trivial = >=2 client threads (owner + worker) issued frames AND at least one short write or would-block fell strictly inside a frame; distinct = distinct (schedule trace hash).".to_string()
    }
    fn assumptions(&self) -> Vec<String> {
        vec![
            "SimStream models a non-blocking socket over a real mio Registration; epoll itself is not exercised".into(),
            "amq-protocol's parser/generator is trusted for decoding frames at the peer".into(),
            "schedule points are the channel/poll/stream operations; code between two of them runs atomically".into(),
        ]
    }
    fn plan(&self, thorough: bool, seed: u64) -> Vec<CaseSpec> {
        plan_random("C01", "session", seed, if thorough { 200_000 } else { 12_000 })
    }
    fn run_case(&self, spec: &CaseSpec, text: bool) -> CaseReport {
        let mut cs = spec.stream();
        let mut g = GenCfg::default();
        g.max_threads = 3;
        g.max_ops = 40;
        g.read_faults = false;
        let mut gen = gen_session(&mut cs, &g);
        // a fifth of the sessions are cut short by the server closing the connection while frames are queued
        // or half written: what the client has written by the end must still be whole frames, CloseOk last
        let server_close = cs.choose("c01_server_close", 5) == 0;
        if server_close {
            let at = 1_000 * (60 + cs.choose("c01_server_close_at_us", 15_000) as u64);
            gen.broker.script.push((crate::broker::Trigger::AtTime(at), crate::broker::Action::CloseConnection { code: 320, text: "CONNECTION_FORCED-c01".into() }));
        }
        // a sixth of the remaining sessions negotiate a 1 s heartbeat and meet a transport that accepts a few
        // bytes per write and then nothing at all for longer than the interval (the server keeps sending
        // heartbeats): whatever the heartbeat timers do to a half-written buffer, the stream stays whole frames
        let hb_stall = !server_close && cs.choose("c01_heartbeat_stall", 6) == 0;
        let mut stall = None;
        if hb_stall {
            gen.plan.opts.heartbeat = 1;
            gen.broker.tune.2 = 1;
            gen.broker.heartbeat_every_ns = Some(400_000_000);
            gen.net.wr_cap = 1 + cs.choose("c01_wr_cap", 40) as usize;
            let a = 1_000 * (3_000 + cs.choose("c01_stall_at_us", 17_000) as u64);
            let b = a + 1_200_000_000 + 1_000_000 * cs.choose("c01_stall_ms", 1_500) as u64;
            stall = Some((a, b));
            gen.sched.hang_after_ns = gen.sched.hang_after_ns.max(30_000_000_000);
            gen.sched.step_cap = gen.sched.step_cap.max(4_000_000);
        }
        let (res, world) = run_generated(&gen, cs, text, move |_| {
            if let Some((a, b)) = stall {
                crate::world::call_in(a, |w| w.set_stall(true));
                crate::world::call_in(b, |w| w.set_stall(false));
            }
        });
        let mut rep = CaseReport::default();
        fill_common(&mut rep, &res, &world);
        rep.sample = plan_summary(&gen);
        rep.count("c01.server_close_sessions", server_close as u64);
        rep.count("c01.heartbeat_stall_sessions", hb_stall as u64);
        let n = world.net.lock().unwrap();
        let inside = n.stats.short_write_inside_frame + n.stats.would_block_inside_frame;
        rep.nontrivial = !gen.plan.threads.is_empty() && inside > 0;
        rep.distinct = rep.trace_hash;
        for p in &res.run.panics {
            rep.count("panic", 1);
            rep.violate("panic", format!("{}@{}", p.thread, p.location), format!("{} panicked: {}", p.thread, p.message));
        }
        if let Some((sig, detail)) = hang_sig(&res.run.outcome) {
            // a corrupted stream makes the broker fall silent: name the root cause first
            wire_oracle(&mut rep, "", &n.c2s, &res.hist, gen.frame_max, false, false);
            if !rep.violations.is_empty() {
                return rep;
            }
            rep.violate("hang", sig, format!("cooperative broker, finite write faults, yet threads never finish: {} ; unsent-by-client? c2s={} bytes, delivered_to_broker={}", detail, n.c2s.len(), n.delivered_to_broker));
            return rep;
        }
        if rep.inconclusive.is_some() {
            return rep;
        }
        // a connection that ended with an error may have died in the middle of a write
        // (after a server close the client still writes everything queued and its CloseOk: that stream is whole too)
        let ended_well = res.hist.conn.iter().any(|c| match c {
            ConnRec::Close { result: Ok(()), .. } => true,
            ConnRec::Close { result: Err(e), .. } => e.starts_with("ServerClosedConnection("),
            _ => false,
        });
        let complete = ended_well;
        // when the server closed the connection calls fail at arbitrary points: the per-channel sequence is
        // not defined, the envelope (header + whole, decodable frames) is
        let cut_short = world.broker.sent.iter().any(|s| matches!(s.kind, crate::broker::SentKind::ConnectionClose { .. }));
        wire_oracle(&mut rep, "", &n.c2s, &res.hist, gen.frame_max, complete, !cut_short);
        rep
    }
}
