//! C07 — server protocol violations are contained: never mis-delivered, never a panic.
use super::*;
use crate::broker::{Action, BrokerCfg, Trigger};
use crate::client::*;
use crate::gen::{pick, Generated};
use crate::oracles::decode_c2s;
use crate::session::*;
use crate::stream::NetCfg;
use crate::wire;
use amiquip_simrt::{ChoiceStream, SchedCfg};
use amq_protocol::frame::AMQPFrame;
use amq_protocol::protocol::basic::{self, AMQPMethod as B, AMQPProperties};
use amq_protocol::protocol::connection::AMQPMethod as Cn;
use amq_protocol::protocol::{access, channel, connection, queue, tx, AMQPClass};

const N_CLIENT_ONLY: u8 = 21;
const N_UNIMPLEMENTED: u8 = 10;

pub struct C07;

#[derive(Clone, Debug, PartialEq)]
enum Letter {
    Deliver { ch: u16, tag: String, dtag: u64 },
    Return { ch: u16 },
    GetOk { ch: u16 },
    Header { ch: u16, size: u64 },
    Body { ch: u16, len: usize },
    ConsumeOk { ch: u16, tag: String },
    /// the server cancels a consumer (legal); what follows for that tag is addressed to nobody
    Cancel { ch: u16, tag: String, nowait: bool },
    /// a method only a client may send
    ClientOnly { ch: u16, which: u8 },
    /// a class / method the client does not implement
    Unimplemented { ch: u16, which: u8 },
    /// an unexpected connection-class method on channel 0
    Channel0Unknown { which: u8 },
    Heartbeat,
}

const SIZES: [u64; 8] = [0, 1, 10, 1 << 31, 1 << 32, 1 << 63, u64::MAX, 37];

fn encode(l: &Letter, body_seed: &mut u8) -> Vec<u8> {
    let mut b = Vec::new();
    match l {
        Letter::Deliver { ch, tag, dtag } => wire::method(&mut b, *ch, &AMQPClass::Basic(B::Deliver(basic::Deliver { consumer_tag: tag.clone(), delivery_tag: *dtag, redelivered: false, exchange: "ex".into(), routing_key: format!("rk{}", dtag) }))),
        Letter::Return { ch } => wire::method(&mut b, *ch, &AMQPClass::Basic(B::Return(basic::Return { reply_code: 312, reply_text: "NO_ROUTE".into(), exchange: "ex".into(), routing_key: "rk".into() }))),
        Letter::GetOk { ch } => wire::method(&mut b, *ch, &AMQPClass::Basic(B::GetOk(basic::GetOk { delivery_tag: 77, redelivered: false, exchange: "ex".into(), routing_key: "rk".into(), message_count: 1 }))),
        Letter::Header { ch, size } => wire::header(&mut b, *ch, 60, *size, &AMQPProperties::default().with_message_id(format!("m{}", size))),
        Letter::Body { ch, len } => {
            let data: Vec<u8> = (0..*len).map(|i| {
                *body_seed = body_seed.wrapping_mul(31).wrapping_add(7 + i as u8);
                *body_seed
            }).collect();
            wire::body(&mut b, *ch, &data)
        }
        Letter::ConsumeOk { ch, tag } => wire::method(&mut b, *ch, &AMQPClass::Basic(B::ConsumeOk(basic::ConsumeOk { consumer_tag: tag.clone() }))),
        Letter::Cancel { ch, tag, nowait } => wire::method(&mut b, *ch, &AMQPClass::Basic(B::Cancel(basic::Cancel { consumer_tag: tag.clone(), nowait: *nowait }))),
        Letter::ClientOnly { ch, which } => {
            // every method that only a client may send (AMQP 0-9-1 + RabbitMQ extensions), one per value
            use amq_protocol::protocol::{confirm, exchange};
            let t = || amq_protocol::types::FieldTable::default();
            let m = match which % N_CLIENT_ONLY {
                0 => AMQPClass::Basic(B::Publish(basic::Publish { ticket: 0, exchange: "x".into(), routing_key: "k".into(), mandatory: false, immediate: false })),
                1 => AMQPClass::Queue(queue::AMQPMethod::Declare(queue::Declare { ticket: 0, queue: "q".into(), passive: false, durable: false, exclusive: false, auto_delete: false, nowait: false, arguments: Default::default() })),
                2 => AMQPClass::Channel(channel::AMQPMethod::Open(channel::Open { out_of_band: String::new() })),
                3 => AMQPClass::Connection(Cn::Tune(connection::Tune { channel_max: 1, frame_max: 4096, heartbeat: 0 })),
                4 => AMQPClass::Basic(B::Qos(basic::Qos { prefetch_size: 0, prefetch_count: 1, global: false })),
                5 => AMQPClass::Basic(B::Consume(basic::Consume { ticket: 0, queue: "q".into(), consumer_tag: "c".into(), no_local: false, no_ack: false, exclusive: false, nowait: false, arguments: t() })),
                6 => AMQPClass::Basic(B::Get(basic::Get { ticket: 0, queue: "q".into(), no_ack: false })),
                7 => AMQPClass::Basic(B::Recover(basic::Recover { requeue: true })),
                8 => AMQPClass::Basic(B::RecoverAsync(basic::RecoverAsync { requeue: false })),
                9 => AMQPClass::Basic(B::Reject(basic::Reject { delivery_tag: 1, requeue: false })),
                10 => AMQPClass::Confirm(confirm::AMQPMethod::Select(confirm::Select { nowait: false })),
                11 => AMQPClass::Exchange(exchange::AMQPMethod::Declare(exchange::Declare { ticket: 0, exchange: "x".into(), type_: "direct".into(), passive: false, durable: false, auto_delete: false, internal: false, nowait: false, arguments: t() })),
                12 => AMQPClass::Exchange(exchange::AMQPMethod::Delete(exchange::Delete { ticket: 0, exchange: "x".into(), if_unused: false, nowait: false })),
                13 => AMQPClass::Exchange(exchange::AMQPMethod::Bind(exchange::Bind { ticket: 0, destination: "d".into(), source: "s".into(), routing_key: "k".into(), nowait: false, arguments: t() })),
                14 => AMQPClass::Exchange(exchange::AMQPMethod::Unbind(exchange::Unbind { ticket: 0, destination: "d".into(), source: "s".into(), routing_key: "k".into(), nowait: false, arguments: t() })),
                15 => AMQPClass::Queue(queue::AMQPMethod::Delete(queue::Delete { ticket: 0, queue: "q".into(), if_unused: false, if_empty: false, nowait: false })),
                16 => AMQPClass::Queue(queue::AMQPMethod::Bind(queue::Bind { ticket: 0, queue: "q".into(), exchange: "x".into(), routing_key: "k".into(), nowait: false, arguments: t() })),
                17 => AMQPClass::Queue(queue::AMQPMethod::Purge(queue::Purge { ticket: 0, queue: "q".into(), nowait: false })),
                18 => AMQPClass::Queue(queue::AMQPMethod::Unbind(queue::Unbind { ticket: 0, queue: "q".into(), exchange: "x".into(), routing_key: "k".into(), arguments: t() })),
                19 => AMQPClass::Connection(Cn::Open(connection::Open { virtual_host: "/".into(), capabilities: String::new(), insist: false })),
                _ => AMQPClass::Connection(Cn::StartOk(connection::StartOk { client_properties: t(), mechanism: "PLAIN".into(), response: "x".into(), locale: "en_US".into() })),
            };
            wire::method(&mut b, *ch, &m)
        }
        Letter::Unimplemented { ch, which } => {
            let m = match which % N_UNIMPLEMENTED {
                0 => AMQPClass::Tx(tx::AMQPMethod::SelectOk(tx::SelectOk {})),
                1 => AMQPClass::Access(access::AMQPMethod::RequestOk(access::RequestOk { ticket: 1 })),
                2 => AMQPClass::Channel(channel::AMQPMethod::Flow(channel::Flow { active: false })),
                3 => AMQPClass::Channel(channel::AMQPMethod::FlowOk(channel::FlowOk { active: true })),
                4 => AMQPClass::Access(access::AMQPMethod::Request(access::Request { realm: "r".into(), exclusive: false, passive: true, active: true, write: true, read: true })),
                5 => AMQPClass::Tx(tx::AMQPMethod::Select(tx::Select {})),
                6 => AMQPClass::Tx(tx::AMQPMethod::Commit(tx::Commit {})),
                7 => AMQPClass::Tx(tx::AMQPMethod::CommitOk(tx::CommitOk {})),
                8 => AMQPClass::Tx(tx::AMQPMethod::Rollback(tx::Rollback {})),
                _ => AMQPClass::Tx(tx::AMQPMethod::RollbackOk(tx::RollbackOk {})),
            };
            wire::method(&mut b, *ch, &m)
        }
        Letter::Channel0Unknown { which } => {
            let m = match which % 3 {
                0 => AMQPClass::Connection(Cn::OpenOk(connection::OpenOk { known_hosts: String::new() })),
                1 => AMQPClass::Connection(Cn::Tune(connection::Tune { channel_max: 1, frame_max: 4096, heartbeat: 0 })),
                _ => AMQPClass::Connection(Cn::Secure(connection::Secure { challenge: "c".into() })),
            };
            wire::method(&mut b, 0, &m)
        }
        Letter::Heartbeat => wire::heartbeat(&mut b),
    }
    b
}

#[derive(Clone, Debug, PartialEq)]
enum Coll {
    Idle,
    Method { deliver_tag: Option<(String, u64)>, kind: u8 }, // kind 0 deliver 1 return 2 get
    Body { deliver_tag: Option<(String, u64)>, kind: u8, want: u64, got: Vec<u8> },
}

struct Reading {
    /// what close() must return; None = outside what the statement pins down (safety half only)
    error: Option<String>,
    /// exception code if the error is ClientException
    code: Option<u16>,
    /// deliveries to the known consumer completed before the end: (delivery tag, body)
    delivered: Vec<(u64, Vec<u8>)>,
    violation_at: Option<usize>,
    safety_only: bool,
}

/// Reference reader: a compliant reading of the frame sequence, from the statement.
fn read(letters: &[Letter], bodies: &[Vec<u8>], open: &[u16], known_tag: &str, tag_channel: u16) -> Reading {
    let mut r = Reading { error: None, code: None, delivered: Vec::new(), violation_at: None, safety_only: false };
    let mut coll: std::collections::BTreeMap<u16, Coll> = std::collections::BTreeMap::new();
    let mut tags: Vec<(u16, String)> = vec![(tag_channel, known_tag.to_string())];
    let fail = |r: &mut Reading, i: usize, e: String, code: Option<u16>| {
        r.error = Some(e);
        r.code = code;
        r.violation_at = Some(i);
    };
    for (i, l) in letters.iter().enumerate() {
        let ch = match l {
            Letter::Deliver { ch, .. } | Letter::Return { ch } | Letter::GetOk { ch } | Letter::Header { ch, .. } | Letter::Body { ch, .. } | Letter::ConsumeOk { ch, .. } | Letter::Cancel { ch, .. } | Letter::ClientOnly { ch, .. } | Letter::Unimplemented { ch, .. } => *ch,
            Letter::Channel0Unknown { .. } | Letter::Heartbeat => 0,
        };
        match l {
            Letter::Heartbeat => continue,
            Letter::Channel0Unknown { .. } => {
                fail(&mut r, i, "ClientException".into(), Some(540));
                return r;
            }
            Letter::Unimplemented { .. } => {
                fail(&mut r, i, "ClientException".into(), Some(540));
                return r;
            }
            Letter::ClientOnly { .. } => {
                fail(&mut r, i, "ClientException".into(), Some(530));
                return r;
            }
            _ => {}
        }
        if ch == 0 {
            match l {
                Letter::Header { .. } | Letter::Body { .. } => {
                    fail(&mut r, i, "ClientException".into(), Some(530));
                    return r;
                }
                // content-bearing methods on channel 0 are "not implemented there"
                _ => {
                    fail(&mut r, i, "ClientException".into(), Some(540));
                    return r;
                }
            }
        }
        if !open.contains(&ch) {
            fail(&mut r, i, format!("ReceivedFrameWithBogusChannelId({})", ch), None);
            return r;
        }
        let st = coll.entry(ch).or_insert(Coll::Idle).clone();
        match l {
            Letter::Deliver { tag, dtag, .. } => {
                if st != Coll::Idle {
                    fail(&mut r, i, "FrameUnexpected".into(), None);
                    return r;
                }
                coll.insert(ch, Coll::Method { deliver_tag: Some((tag.clone(), *dtag)), kind: 0 });
            }
            Letter::Return { .. } | Letter::GetOk { .. } => {
                if st != Coll::Idle {
                    fail(&mut r, i, "FrameUnexpected".into(), None);
                    return r;
                }
                coll.insert(ch, Coll::Method { deliver_tag: None, kind: if matches!(l, Letter::Return { .. }) { 1 } else { 2 } });
            }
            Letter::Header { size, .. } => match st {
                Coll::Method { deliver_tag, kind } => {
                    if *size == 0 {
                        if !complete(&mut r, i, ch, &deliver_tag, kind, Vec::new(), &tags) {
                            return r;
                        }
                        coll.insert(ch, Coll::Idle);
                    } else {
                        coll.insert(ch, Coll::Body { deliver_tag, kind, want: *size, got: Vec::new() });
                    }
                }
                _ => {
                    fail(&mut r, i, "FrameUnexpected".into(), None);
                    return r;
                }
            },
            Letter::Body { .. } => match st {
                Coll::Body { deliver_tag, kind, want, mut got } => {
                    got.extend_from_slice(&bodies[i]);
                    if got.len() as u64 > want {
                        fail(&mut r, i, "FrameUnexpected".into(), None);
                        return r;
                    } else if got.len() as u64 == want {
                        if !complete(&mut r, i, ch, &deliver_tag, kind, got, &tags) {
                            return r;
                        }
                        coll.insert(ch, Coll::Idle);
                    } else {
                        coll.insert(ch, Coll::Body { deliver_tag, kind, want, got });
                    }
                }
                _ => {
                    fail(&mut r, i, "FrameUnexpected".into(), None);
                    return r;
                }
            },
            Letter::Cancel { tag, .. } => {
                // a server cancel ends the consumer (an unknown tag is ignored); deliveries for it afterwards
                // are deliveries to an unknown tag
                tags.retain(|t| !(t.0 == ch && &t.1 == tag));
            }
            Letter::ConsumeOk { tag, .. } => {
                if tags.contains(&(ch, tag.clone())) {
                    fail(&mut r, i, format!("DuplicateConsumerTag({},{})", ch, tag), None);
                    return r;
                }
                // an unsolicited ConsumeOk with a fresh tag: not in the statement's list
                tags.push((ch, tag.clone()));
                r.safety_only = true;
            }
            _ => {}
        }
    }
    r
}

fn complete(r: &mut Reading, i: usize, ch: u16, deliver_tag: &Option<(String, u64)>, kind: u8, body: Vec<u8>, tags: &[(u16, String)]) -> bool {
    match kind {
        0 => {
            let (tag, dtag) = deliver_tag.clone().unwrap();
            if !tags.contains(&(ch, tag.clone())) {
                r.error = Some(format!("UnknownConsumerTag({},{})", ch, tag));
                r.violation_at = Some(i);
                return false;
            }
            if (ch, tag.as_str()) == (1, "ctag-1-0") {
                r.delivered.push((dtag, body));
            }
            true
        }
        1 => true, // returned message: no listener registered, discarded
        _ => {
            // an answer to a get nobody issued: not in the statement's list
            r.safety_only = true;
            true
        }
    }
}

fn gen_letters(cs: &mut ChoiceStream, known_tag: &str) -> Vec<Letter> {
    let n = 1 + cs.choose("n_letters", 12) as usize;
    let mut v = Vec::new();
    let mut dtag = 100u64;
    for _ in 0..n {
        let ch = *pick(cs, "ch", &[1u16, 1, 1, 2, 5, 0]);
        let l = match cs.choose("letter", 16) {
            0 | 1 | 2 => {
                dtag += 1;
                Letter::Deliver { ch, tag: if cs.choose("known_tag", 5) != 0 && ch == 1 { known_tag.to_string() } else { "no-such-tag".to_string() }, dtag }
            }
            3 | 4 | 5 => Letter::Header { ch, size: *pick(cs, "size", &SIZES) },
            6 | 7 | 8 => Letter::Body { ch, len: *pick(cs, "body_len", &[0usize, 1, 5, 10, 11, 27, 37]) },
            9 => Letter::Return { ch },
            10 => Letter::GetOk { ch },
            11 => {
                if cs.choose("consumeok_or_cancel", 2) == 0 {
                    Letter::ConsumeOk { ch, tag: if cs.choose("dup_tag", 2) == 0 { known_tag.to_string() } else { "fresh-tag".to_string() } }
                } else {
                    Letter::Cancel { ch: if ch == 5 || ch == 0 { 1 } else { ch }, tag: if cs.choose("cancel_known", 3) != 0 { known_tag.to_string() } else { "no-such-tag".to_string() }, nowait: cs.choose("cancel_nowait", 2) == 1 }
                }
            }
            12 => Letter::ClientOnly { ch: if ch == 5 { 1 } else { ch }, which: cs.choose("which", N_CLIENT_ONLY as u32) as u8 },
            13 => Letter::Unimplemented { ch: if ch == 5 { 2 } else { ch }, which: cs.choose("which", N_UNIMPLEMENTED as u32) as u8 },
            14 => Letter::Channel0Unknown { which: cs.choose("which", 3) as u8 },
            _ => Letter::Heartbeat,
        };
        // Connection-class client-only method is meant for a non-zero channel
        let l = match l {
            Letter::ClientOnly { ch: 0, which } => Letter::ClientOnly { ch: 1, which },
            Letter::Unimplemented { ch: 0, which } if matches!(which % N_UNIMPLEMENTED, 2 | 3) => Letter::Unimplemented { ch: 1, which },
            x => x,
        };
        v.push(l);
    }
    // bias: make well-formed content likely by following a Deliver with a matching header and body
    if cs.choose("coherent_prefix", 3) != 0 {
        let size = *pick(cs, "coherent_size", &[0u64, 1, 10, 37]);
        // mostly for the known consumer; sometimes a complete delivery for a tag nobody consumes with
        let (pch, ptag) = match cs.choose("coherent_addressee", 5) {
            0 => (1u16, "no-such-tag".to_string()),
            1 => (2u16, known_tag.to_string()),
            _ => (1u16, known_tag.to_string()),
        };
        let mut pre = vec![Letter::Deliver { ch: pch, tag: ptag, dtag: 50 }, Letter::Header { ch: pch, size }];
        let mut left = size as usize;
        while left > 0 {
            let k = (*pick(cs, "coherent_piece", &[1usize, 5, 10, 37])).min(left);
            pre.push(Letter::Body { ch: pch, len: k });
            left -= k;
        }
        let cut = cs.choose("coherent_cut", pre.len() as u32 + 1) as usize;
        pre.truncate(cut.max(1));
        pre.extend(v);
        v = pre;
    }
    v
}

impl Scenario for C07 {
    fn property(&self) -> &'static str {
        "C07"
    }
    fn memory_limit(&self) -> u64 {
        // generous for the harness, far below what a body announced as 2^32 bytes would take
        3 << 30
    }
    fn rule(&self) -> String {
        "Seeded sequences of 1-16 syntactically valid frames sent by the simulated server into an established session (channel 1 open with a consumer, channel 2 open, channel 5 not open, channel 0), over an alphabet with one letter per arm of the client's frame dispatch: Deliver (known / unknown tag), Return, unsolicited GetOk, content header with announced size from {0,1,10,37,2^31,2^32,2^63,2^64-1}, body frames of 0..37 bytes, ConsumeOk (duplicate / fresh tag), every one of the 21 client-only methods (Basic.Publish/Qos/Consume/Get/Recover/RecoverAsync/Reject, Confirm.Select, Channel.Open, the Exchange and Queue requests, Connection.Tune/Open/StartOk on a channel), the 10 methods of unimplemented classes (Access, Tx, Channel.Flow/FlowOk), unexpected channel-0 methods, heartbeats; a coherent Deliver+header+body prefix is often prepended and cut at a random point so that every collector state (idle, after method, after header with partial body) is entered before the stray frame. The sequence ends with Connection.Close(320). Worker processes run under a 3 GiB address-space limit, so an allocation sized by an announced body aborts the process, which the driver reports with the case. Oracle: reference reader written from the statement (first violating frame decides: FrameUnexpected / ReceivedFrameWithBogusChannelId / UnknownConsumerTag / DuplicateConsumerTag / ClientException with Connection.Close carrying 530 or 540 as the last frame written; otherwise ServerClosedConnection(320)); the consumer received exactly the deliveries completed before that point, byte-identical; no panic. Unsolicited GetOk / fresh ConsumeOk put a run into safety-half-only mode. Non-trivial = the sequence contains a violation reached with the collector of that channel not idle, or an announced size >= 2^31; distinct = hash of the letter sequence.".to_string()
    }
    fn plan(&self, thorough: bool, seed: u64) -> Vec<CaseSpec> {
        plan_random("C07", "violations", seed, if thorough { 600_000 } else { 40_000 })
    }
    fn run_case(&self, spec: &CaseSpec, text: bool) -> CaseReport {
        let mut cs = spec.stream();
        let known_tag = "ctag-1-0";
        let letters = gen_letters(&mut cs, known_tag);
        let mut seed_b = 17u8;
        let mut frames = Vec::new();
        let mut bodies: Vec<Vec<u8>> = Vec::new();
        for l in &letters {
            let f = encode(l, &mut seed_b);
            if let Letter::Body { len, .. } = l {
                bodies.push(f[7..7 + *len].to_vec());
            } else {
                bodies.push(Vec::new());
            }
            frames.push(f);
        }
        let model = read(&letters, &bodies, &[1, 2], known_tag, 1);
        let mut broker = BrokerCfg::default();
        broker.fixed_consumer_tags = true;
        broker.deliveries_min = 0;
        broker.deliveries_max = 0;
        broker.seg_mode = pick(&mut cs, "seg_mode", &[crate::broker::SegMode::Whole, crate::broker::SegMode::Random, crate::broker::SegMode::Byte]).clone();
        let t0 = 20_000_000u64;
        broker.script.push((Trigger::AtTime(t0), Action::Raw { ch: 0, frames }));
        broker.script.push((Trigger::AtTime(t0 + 5_000_000), Action::CloseConnection { code: 320, text: "CONNECTION_FORCED-end".into() }));
        let threads = vec![
            ThreadPlan { chan_ids: vec![Some(1)], ops: vec![(0, Op::Consume { queue: "q".into(), no_local: false, no_ack: true, exclusive: false, args: 0, via_queue: false }), (0, Op::Drain { slot: 0, max: None, acks: vec![], via_consumer: false })], close_channels: true },
            ThreadPlan { chan_ids: vec![Some(2)], ops: vec![(0, Op::Gate(1)), (0, Op::Qos { size: 0, count: 1, global: false })], close_channels: true },
        ];
        // a third of the cases: a third thread is in the middle of publishing over a transport that takes a few
        // bytes per write and blocks now and then, so the violation meets a half-written outgoing frame: the
        // client's Connection.Close must still be the last *whole* frame of a stream of whole frames
        let mut threads = threads;
        let mut net = NetCfg { c2s_lat_min_ns: 1_000, c2s_lat_max_ns: 1_000, ..NetCfg::default() };
        let busy_writer = cs.choose("c07_busy_writer", 3) == 0;
        if busy_writer {
            let mut ops = vec![(0usize, Op::Gate(2))];
            for i in 0..4 {
                ops.push((0, Op::Publish { exchange: "".into(), rk: format!("w{}", i), mandatory: false, immediate: false, props: 0, body_len: 30_000, via_exchange: false }));
            }
            threads.push(ThreadPlan { chan_ids: vec![Some(3)], ops, close_channels: true });
            net.wr_cap = 1 + cs.choose("c07_wr_cap", 200) as usize;
            net.wr_block_permille = 150;
            net.wr_block_max_ns = 400_000;
        }
        let plan = SessionPlan { opts: ConnOpts::default(), tuning: Tuning::default(), threads, owner_ops: vec![], close: CloseKind::Close, join_before_close: true };
        let mut sched = SchedCfg::default();
        sched.stick_pct = *pick(&mut cs, "stick", &[90u32, 50]);
        crate::gen::gen_pct(&mut cs, &mut sched, 4);
        sched.hang_after_ns = 20_000_000_000;
        if busy_writer {
            sched.step_cap = 3_000_000;
        }
        let gen = Generated { plan, net, broker, sched, frame_max: 131072 };
        let (res, world) = run_generated(&gen, cs, text, move |_| {
            crate::world::call_in(t0 + 50_000_000, |_| amiquip_simrt::gate_open(1));
            crate::world::call_in(t0 - 300_000, |_| amiquip_simrt::gate_open(2));
        });
        let mut rep = CaseReport::default();
        fill_common(&mut rep, &res, &world);
        rep.sample = serde_json::json!({"frames": letters.iter().map(|l| format!("{:?}", l)).collect::<Vec<_>>(), "model": {"error": model.error, "code": model.code, "deliveries": model.delivered.len(), "violation_at": model.violation_at, "safety_only": model.safety_only}});
        for p in &res.run.panics {
            rep.violate("panic", format!("{}@{}", p.thread, p.location), format!("frames {:?}: {} panicked: {}", letters, p.thread, p.message));
        }
        if !rep.violations.is_empty() {
            return rep;
        }
        if let Some((sig, detail)) = hang_sig(&res.run.outcome) {
            rep.violate("hang", sig, format!("frames {:?}: {}", letters, detail));
            return rep;
        }
        if rep.inconclusive.is_some() {
            return rep;
        }
        // delivered messages: exactly the completed ones, identical
        let mut got: Vec<(u64, Vec<u8>)> = Vec::new();
        for o in &res.hist.ops {
            if let OpResult::Drained { msgs, .. } = &o.result {
                got = msgs.iter().map(|m| (m.delivery_tag, m.body.clone())).collect();
            }
        }
        let n_cmp = got.len().min(model.delivered.len());
        for i in 0..n_cmp {
            if got[i] != model.delivered[i] {
                rep.violate("mis-delivery", "content", format!("frames {:?}: delivery #{} to the consumer is (tag {}, {} bytes), a compliant reading gives (tag {}, {} bytes)", letters, i, got[i].0, got[i].1.len(), model.delivered[i].0, model.delivered[i].1.len()));
                return rep;
            }
        }
        if got.len() > model.delivered.len() {
            rep.violate("mis-delivery", "extra", format!("frames {:?}: consumer received {} messages, a compliant reading completes only {}", letters, got.len(), model.delivered.len()));
            return rep;
        }
        if got.len() < model.delivered.len() && !model.safety_only {
            rep.violate("mis-delivery", "lost", format!("frames {:?}: consumer received {} messages, a compliant reading completes {} before the end", letters, got.len(), model.delivered.len()));
            return rep;
        }
        let close = res.hist.conn.iter().find_map(|c| if let ConnRec::Close { result, .. } = c { Some(result.clone()) } else { None });
        let got_err = match close {
            Some(Ok(())) => "Ok".to_string(),
            Some(Err(e)) => e,
            None => {
                let e = res.hist.conn.iter().find_map(|c| if let ConnRec::Open { result: Err(e), .. } = c { Some(e.clone()) } else { None });
                rep.violate("setup", "open-failed", format!("cooperative handshake failed before any violating frame was sent: {:?}", e));
                return rep;
            }
        };
        if !model.safety_only {
            let want = model.error.clone().unwrap_or_else(|| "ServerClosedConnection(320,CONNECTION_FORCED-end)".to_string());
            if got_err != want {
                rep.violate("error-kind", format!("{}-instead-of-{}", got_err.split('(').next().unwrap_or(""), want.split('(').next().unwrap_or("")), format!("frames {:?}: connection ended with {}, the reference reading says {} (first violating frame #{:?})", letters, got_err, want, model.violation_at));
                return rep;
            }
            if let Some(code) = model.code {
                let n = world.net.lock().unwrap();
                let last = decode_c2s(&n.c2s).ok().and_then(|per| {
                    let mut last: Option<(usize, AMQPFrame)> = None;
                    for (_, v) in per {
                        for (off, _, f) in v {
                            if last.as_ref().map(|l| off > l.0).unwrap_or(true) {
                                last = Some((off, f));
                            }
                        }
                    }
                    last.map(|l| l.1)
                });
                match last {
                    Some(AMQPFrame::Method(0, AMQPClass::Connection(Cn::Close(c)))) if c.reply_code == code => {}
                    other => {
                        rep.violate("exception-close", "last-frame", format!("frames {:?}: expected Connection.Close({}) as the last frame written, found {:?}", letters, code, other.map(|f| format!("{:?}", f).chars().take(100).collect::<String>())));
                        return rep;
                    }
                }
            }
        }
        rep.count("c07.busy_writer_cases", busy_writer as u64);
        let giant = letters.iter().any(|l| matches!(l, Letter::Header { size, .. } if *size >= 1 << 31));
        rep.count("c07.giant_announced_size", giant as u64);
        rep.count("c07.safety_only", model.safety_only as u64);
        if let Some(e) = &model.error {
            rep.count(&format!("c07.expect.{}", e.split('(').next().unwrap_or("")), 1);
        }
        rep.nontrivial = giant || model.violation_at.map(|i| i > 0).unwrap_or(false);
        let mut h = 0xcbf29ce484222325u64;
        for b in format!("{:?}", letters).bytes() {
            h = (h ^ b as u64).wrapping_mul(0x100000001b3);
        }
        rep.distinct = h;
        rep
    }
}
