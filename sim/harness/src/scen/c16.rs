//! C16 — only a complete handshake yields a connection; failures name their cause.
use super::*;
use crate::broker::{BrokerCfg, CutKind, HsAfter, HsStep, HsThen};
use crate::client::*;
use crate::gen::{pick, Generated};
use crate::session::*;
use crate::stream::NetCfg;
use crate::wire;
use amiquip_simrt::{ChoiceStream, SchedCfg};
use amq_protocol::frame::AMQPFrame;
use amq_protocol::protocol::channel;
use amq_protocol::protocol::connection::{self, AMQPMethod as Cn};
use amq_protocol::protocol::AMQPClass;
use amq_protocol::types::{AMQPValue, FieldTable};

pub struct C16;

/// What the server does at one stage of the handshake.
#[derive(Clone, Debug, PartialEq)]
enum Srv {
    Start { mechs: String, locales: String },
    Secure,
    Tune { cm: u16, fm: u32, hb: u16 },
    OpenOk,
    Close { code: u16, text: String },
    /// a valid frame that does not belong here
    OutOfOrder(u8),
    Garbage(u8),
    Heartbeat,
    Eof,
    Reset,
    Silence,
}

#[derive(Clone, Debug, PartialEq)]
enum Want {
    Connected,
    Err(Vec<String>),
}

fn m(class: AMQPClass) -> Vec<u8> {
    let mut b = Vec::new();
    wire::method(&mut b, 0, &class);
    b
}

fn server_props() -> FieldTable {
    let mut sp = FieldTable::new();
    sp.insert("product".to_string(), AMQPValue::LongString("simbroker".to_string()));
    sp.insert("version".to_string(), AMQPValue::LongString("9.9".to_string()));
    let mut caps = FieldTable::new();
    caps.insert("publisher_confirms".to_string(), AMQPValue::Boolean(true));
    sp.insert("capabilities".to_string(), AMQPValue::FieldTable(caps));
    sp
}

fn frames_of(s: &Srv) -> Vec<Vec<u8>> {
    match s {
        Srv::Start { mechs, locales } => vec![m(AMQPClass::Connection(Cn::Start(connection::Start { version_major: 0, version_minor: 9, server_properties: server_props(), mechanisms: mechs.clone(), locales: locales.clone() })))],
        Srv::Secure => vec![m(AMQPClass::Connection(Cn::Secure(connection::Secure { challenge: "prove it".into() })))],
        Srv::Tune { cm, fm, hb } => vec![m(AMQPClass::Connection(Cn::Tune(connection::Tune { channel_max: *cm, frame_max: *fm, heartbeat: *hb })))],
        Srv::OpenOk => vec![m(AMQPClass::Connection(Cn::OpenOk(connection::OpenOk { known_hosts: String::new() })))],
        Srv::Close { code, text } => vec![m(AMQPClass::Connection(Cn::Close(connection::Close { reply_code: *code, reply_text: text.clone(), class_id: 10, method_id: 40 })))],
        Srv::OutOfOrder(k) => match k % 4 {
            0 => vec![m(AMQPClass::Connection(Cn::OpenOk(connection::OpenOk { known_hosts: String::new() })))],
            1 => vec![m(AMQPClass::Connection(Cn::Tune(connection::Tune { channel_max: 10, frame_max: 8192, heartbeat: 0 })))],
            2 => vec![m(AMQPClass::Connection(Cn::Start(connection::Start { version_major: 0, version_minor: 9, server_properties: FieldTable::new(), mechanisms: "PLAIN EXTERNAL".into(), locales: "en_US fr_FR".into() })))],
            _ => {
                let mut b = Vec::new();
                wire::method(&mut b, 1, &AMQPClass::Channel(channel::AMQPMethod::OpenOk(channel::OpenOk { channel_id: "x".into() })));
                vec![b]
            }
        },
        Srv::Garbage(k) => {
            let mut b = Vec::new();
            match k % 3 {
                0 => wire::raw(&mut b, 1, 0, &[0, 10, 0, 10, 1, 2, 3], 0xCE), // short / bogus arguments
                1 => wire::raw(&mut b, 1, 0, &[0, 10, 0, 11], 0x00),          // bad end octet
                _ => wire::raw(&mut b, 9, 0, &[1, 2, 3, 4], 0xCE),            // unknown frame type
            }
            vec![b]
        }
        Srv::Heartbeat => {
            let mut b = Vec::new();
            wire::heartbeat(&mut b);
            vec![b]
        }
        Srv::Eof | Srv::Reset | Srv::Silence => vec![],
    }
}

fn then_of(s: &Srv) -> HsThen {
    match s {
        Srv::Eof => HsThen::Eof,
        Srv::Reset => HsThen::Reset,
        _ => HsThen::Continue,
    }
}

/// Reference model of the handshake, from the property statement.  Walks the
/// server's behaviour stage by stage; returns what open must return and which
/// client frames must (not) have been written.
struct Model {
    want: Want,
    start_ok: bool,
    tune_ok: Option<(u16, u32, u16)>,
    open: bool,
    close_ok: bool,
    /// stage at which the server went silent (timeout applies)
    silent: bool,
}

fn min0_u16(a: u16, b: u16) -> u16 {
    let a = if a == 0 { u16::MAX } else { a };
    let b = if b == 0 { u16::MAX } else { b };
    a.min(b)
}
fn min0_u32(a: u32, b: u32) -> u32 {
    let a = if a == 0 { u32::MAX } else { a };
    let b = if b == 0 { u32::MAX } else { b };
    a.min(b)
}

fn socket_err(s: &Srv) -> Option<Vec<String>> {
    match s {
        Srv::Eof => Some(vec!["UnexpectedSocketClose".into()]),
        Srv::Reset => Some(vec!["IoErrorReadingSocket".into(), "IoErrorWritingSocket".into()]),
        Srv::Garbage(_) => Some(vec!["MalformedFrame".into()]),
        _ => None,
    }
}

fn model(stages: &[Vec<Srv>; 3], o: &ConnOpts) -> Model {
    let mut md = Model { want: Want::Connected, start_ok: false, tune_ok: None, open: false, close_ok: false, silent: false };
    let timeout = o.timeout_ms.is_some();
    let fail = |md: &mut Model, e: Vec<String>| md.want = Want::Err(e);
    // stage 0: expecting Start
    let mut started = false;
    for s in &stages[0] {
        match s {
            Srv::Heartbeat => continue,
            Srv::Start { mechs, locales } => {
                let mech = if o.external { "EXTERNAL" } else { "PLAIN" };
                if !mechs.split(' ').any(|x| x == mech) {
                    fail(&mut md, vec![format!("UnsupportedAuthMechanism({};{})", mechs, mech)]);
                    return md;
                }
                if !locales.split(' ').any(|x| x == o.locale) {
                    fail(&mut md, vec![format!("UnsupportedLocale({};{})", locales, o.locale)]);
                    return md;
                }
                md.start_ok = true;
                started = true;
                break;
            }
            Srv::Silence => {
                md.silent = true;
                fail(&mut md, if timeout { vec!["ConnectionTimeout".into()] } else { vec!["<hang>".into()] });
                return md;
            }
            other => {
                let e = socket_err(other).unwrap_or_else(|| vec!["FrameUnexpected".into()]);
                fail(&mut md, e);
                return md;
            }
        }
    }
    if !started {
        md.silent = true;
        fail(&mut md, if timeout { vec!["ConnectionTimeout".into()] } else { vec!["<hang>".into()] });
        return md;
    }
    // stage 1: StartOk sent, expecting Tune
    let mut tuned = false;
    for s in &stages[1] {
        match s {
            Srv::Heartbeat => continue,
            Srv::Tune { cm, fm, hb } => {
                let fmx = min0_u32(*fm, o.frame_max);
                if fmx < 4096 {
                    fail(&mut md, vec![format!("FrameMaxTooSmall(4096,{})", fmx)]);
                    return md;
                }
                md.tune_ok = Some((min0_u16(*cm, o.channel_max), fmx, (*hb).min(o.heartbeat)));
                md.open = true;
                tuned = true;
                break;
            }
            Srv::Secure => {
                fail(&mut md, vec!["SaslSecureNotSupported".into()]);
                return md;
            }
            // "InvalidCredentials when the connection is dropped after StartOk without a reply"
            Srv::Eof => {
                fail(&mut md, vec!["InvalidCredentials".into()]);
                return md;
            }
            Srv::Reset => {
                // a reset is a drop too; only a reset that already fails the *write* of StartOk keeps the
                // write error (StartOk never went out, the premise does not hold)
                fail(&mut md, vec!["InvalidCredentials".into(), "IoErrorWritingSocket".into()]);
                return md;
            }
            Srv::Silence => {
                md.silent = true;
                fail(&mut md, if timeout { vec!["ConnectionTimeout".into()] } else { vec!["<hang>".into()] });
                return md;
            }
            other => {
                let e = socket_err(other).unwrap_or_else(|| vec!["FrameUnexpected".into()]);
                fail(&mut md, e);
                return md;
            }
        }
    }
    if !tuned {
        md.silent = true;
        fail(&mut md, if timeout { vec!["ConnectionTimeout".into()] } else { vec!["<hang>".into()] });
        return md;
    }
    // stage 2: TuneOk + Open sent, expecting OpenOk
    for s in &stages[2] {
        match s {
            Srv::Heartbeat => continue,
            Srv::OpenOk => return md,
            Srv::Close { code, text } => {
                md.close_ok = true;
                fail(&mut md, vec![format!("ServerClosedConnection({},{})", code, text)]);
                return md;
            }
            Srv::Silence => {
                md.silent = true;
                // with heartbeats negotiated a silent server is also legitimately declared dead
                let mut v = if timeout { vec!["ConnectionTimeout".to_string()] } else { vec!["<hang>".to_string()] };
                if md.tune_ok.map(|t| t.2 > 0).unwrap_or(false) {
                    v.push("MissedServerHeartbeats".into());
                }
                fail(&mut md, v);
                return md;
            }
            other => {
                let e = socket_err(other).unwrap_or_else(|| vec!["FrameUnexpected".into()]);
                fail(&mut md, e);
                return md;
            }
        }
    }
    md.silent = true;
    let mut v = if timeout { vec!["ConnectionTimeout".to_string()] } else { vec!["<hang>".to_string()] };
    if md.tune_ok.map(|t| t.2 > 0).unwrap_or(false) {
        v.push("MissedServerHeartbeats".into());
    }
    fail(&mut md, v);
    md
}

fn gen_stage(cs: &mut ChoiceStream, stage: usize, allow_silence: bool) -> Vec<Srv> {
    let mut v = Vec::new();
    if cs.choose("hs_leading_heartbeat", 6) == 0 {
        v.push(Srv::Heartbeat);
    }
    let good = match stage {
        0 => Srv::Start { mechs: "PLAIN AMQPLAIN EXTERNAL".into(), locales: "en_US fr_FR".into() },
        1 => Srv::Tune {
            cm: *pick(cs, "srv_cm", &[2047u16, 0, 1, 65535]),
            fm: *pick(cs, "srv_fm", &[131072u32, 0, 4096, 4095, 8192, 1]),
            hb: *pick(cs, "srv_hb", &[0u16, 0, 60, 1]),
        },
        _ => Srv::OpenOk,
    };
    let k = cs.choose("hs_stage_kind", 12);
    let s = match k {
        0..=4 => good,
        5 => match stage {
            0 => Srv::Start { mechs: pick(cs, "bad_mechs", &["AMQPLAIN", "PLAINX XPLAIN", "EXTERNAL", "PLAIN"]).to_string(), locales: "en_US".into() },
            1 => Srv::Secure,
            _ => Srv::Close { code: 400 + cs.choose("hs_close_code", 200) as u16, text: format!("NOT_ALLOWED-{}", cs.choose("hs_close_text", 10000)) },
        },
        6 => match stage {
            0 => Srv::Start { mechs: "PLAIN EXTERNAL".into(), locales: pick(cs, "bad_locales", &["de_DE", "en_USA en", "fr_FR", "en_US"]).to_string() },
            _ => Srv::OutOfOrder(cs.choose("ooo", 4) as u8),
        },
        7 => Srv::OutOfOrder(cs.choose("ooo", 4) as u8),
        8 => Srv::Garbage(cs.choose("garbage", 3) as u8),
        9 => Srv::Eof,
        10 => Srv::Reset,
        _ => {
            if allow_silence {
                Srv::Silence
            } else {
                Srv::Eof
            }
        }
    };
    // an out-of-order frame that happens to be the right one for this stage is not out of order
    let s = match (&s, stage) {
        (Srv::OutOfOrder(k), 0) if k % 4 == 2 => Srv::OutOfOrder(0),
        (Srv::OutOfOrder(k), 1) if k % 4 == 1 => Srv::OutOfOrder(3),
        (Srv::OutOfOrder(k), 2) if k % 4 == 0 => Srv::OutOfOrder(1),
        _ => s,
    };
    v.push(s);
    v
}

fn build_script(stages: &[Vec<Srv>; 3]) -> Vec<HsStep> {
    let afters = [HsAfter::ProtocolHeader, HsAfter::StartOk, HsAfter::Open];
    let mut steps = Vec::new();
    for (i, st) in stages.iter().enumerate() {
        let mut send = Vec::new();
        let mut then = HsThen::Continue;
        for s in st {
            send.extend(frames_of(s));
            let t = then_of(s);
            if t != HsThen::Continue {
                then = t;
            }
        }
        if i == 2 && st.iter().any(|s| *s == Srv::OpenOk) && then == HsThen::Continue {
            then = HsThen::Steady;
        }
        steps.push(HsStep { after: afters[i].clone(), send, then });
    }
    // a server that closed waits for CloseOk, then hangs up
    steps.push(HsStep { after: HsAfter::CloseOk, send: vec![], then: HsThen::Eof });
    steps
}

fn client_opts(cs: &mut ChoiceStream) -> ConnOpts {
    let mut o = ConnOpts::default();
    o.external = cs.choose("external", 5) == 0;
    o.user = pick(cs, "user", &["guest", "alice", "", "üser"]).to_string();
    o.pass = pick(cs, "pass", &["guest", "s3cr\0t", ""]).to_string();
    o.vhost = pick(cs, "vhost", &["/", "prod", "", "/a/b"]).to_string();
    o.locale = pick(cs, "locale", &["en_US", "en_US", "fr_FR", "xx_XX"]).to_string();
    o.channel_max = *pick(cs, "cli_cm", &[0u16, 0, 10, 65535]);
    o.frame_max = *pick(cs, "cli_fm", &[0u32, 0, 4096, 4095, 131072]);
    o.heartbeat = *pick(cs, "cli_hb", &[0u16, 0, 60, 2]);
    o.information = if cs.choose("information", 2) == 1 { Some(format!("info-{}", cs.choose("info_n", 1000))) } else { None };
    o.timeout_ms = if cs.choose("timeout", 2) == 1 { Some(*pick(cs, "timeout_ms", &[50u64, 500, 1500, 5000])) } else { None };
    o
}

fn check_wire(rep: &mut CaseReport, md: &Model, o: &ConnOpts, c2s: &[u8], stages: &[Vec<Srv>; 3]) {
    let (hdr, frames, _) = match wire::split_stream(c2s, false) {
        Ok(x) => x,
        Err(e) => {
            rep.violate("wire", "envelope", format!("client stream malformed during handshake: {:?}", e));
            return;
        }
    };
    if !c2s.is_empty() && !hdr && c2s.len() >= 8 {
        rep.violate("wire", "no-header", "stream does not start with the protocol header".to_string());
        return;
    }
    let decoded: Vec<AMQPFrame> = frames.iter().filter_map(wire::decode).filter(|f| !matches!(f, AMQPFrame::Heartbeat(_))).collect();
    let mut it = decoded.iter();
    // StartOk
    let first = it.next();
    if md.start_ok {
        match first {
            Some(AMQPFrame::Method(0, AMQPClass::Connection(Cn::StartOk(s)))) => {
                let mech = if o.external { "EXTERNAL" } else { "PLAIN" };
                let resp = if o.external { String::new() } else { format!("\0{}\0{}", o.user, o.pass) };
                let mut problems = Vec::new();
                if s.mechanism != mech {
                    problems.push(format!("mechanism {:?}", s.mechanism));
                }
                if s.response != resp {
                    problems.push(format!("response {:?} != {:?}", s.response, resp));
                }
                if s.locale != o.locale {
                    problems.push(format!("locale {:?}", s.locale));
                }
                let cp = &s.client_properties;
                if cp.get("product") != Some(&AMQPValue::LongString("amiquip".into())) {
                    problems.push(format!("product {:?}", cp.get("product")));
                }
                if !matches!(cp.get("version"), Some(AMQPValue::LongString(v)) if !v.is_empty()) {
                    problems.push("version missing".into());
                }
                if !matches!(cp.get("platform"), Some(AMQPValue::LongString(v)) if !v.is_empty()) {
                    problems.push("platform missing".into());
                }
                match cp.get("capabilities") {
                    Some(AMQPValue::FieldTable(c)) => {
                        for k in ["consumer_cancel_notify", "connection.blocked"] {
                            if c.get(k) != Some(&AMQPValue::Boolean(true)) {
                                problems.push(format!("capability {} = {:?}", k, c.get(k)));
                            }
                        }
                    }
                    other => problems.push(format!("capabilities {:?}", other)),
                }
                match (&o.information, cp.get("information")) {
                    (Some(i), Some(AMQPValue::LongString(g))) if i == g => {}
                    (None, None) => {}
                    (w, g) => problems.push(format!("information {:?} vs option {:?}", g, w)),
                }
                if !problems.is_empty() {
                    rep.violate("start-ok", problems[0].split(' ').next().unwrap_or("").to_string(), format!("StartOk differs from the options: {:?}", problems));
                    return;
                }
            }
            other => {
                // a failure after Start may still cut the write short: only complain when the model says the
                // handshake went past this point
                if md.tune_ok.is_some() || md.want == Want::Connected {
                    rep.violate("wire", "start-ok-missing", format!("after a valid Start the first frame written is {:?}", other.map(|f| format!("{:?}", f).chars().take(80).collect::<String>())));
                    return;
                }
            }
        }
    } else if first.is_some() {
        rep.violate("wire", "frame-without-start", format!("client wrote {:?} although the server never sent an acceptable Start (stage 0: {:?})", first.map(|f| format!("{:?}", f).chars().take(80).collect::<String>()), stages[0]));
        return;
    }
    // TuneOk + Open
    let second = it.next();
    let third = it.next();
    match md.tune_ok {
        Some((cm, fm, hb)) => {
            match second {
                Some(AMQPFrame::Method(0, AMQPClass::Connection(Cn::TuneOk(t)))) => {
                    if (t.channel_max, t.frame_max, t.heartbeat) != (cm, fm, hb) {
                        rep.violate("tune-ok", "values", format!("TuneOk({},{},{}) but the model gives ({},{},{}) for options cm={} fm={} hb={} and server stage {:?}", t.channel_max, t.frame_max, t.heartbeat, cm, fm, hb, o.channel_max, o.frame_max, o.heartbeat, stages[1]));
                        return;
                    }
                }
                other => {
                    if md.want == Want::Connected {
                        rep.violate("wire", "tune-ok-missing", format!("second frame is {:?}", other.map(|f| format!("{:?}", f).chars().take(80).collect::<String>())));
                        return;
                    }
                }
            }
            match third {
                Some(AMQPFrame::Method(0, AMQPClass::Connection(Cn::Open(op)))) => {
                    if op.virtual_host != o.vhost {
                        rep.violate("open", "vhost", format!("Open.virtual_host {:?} != option {:?}", op.virtual_host, o.vhost));
                        return;
                    }
                }
                other => {
                    if md.want == Want::Connected {
                        rep.violate("wire", "open-missing", format!("third frame is {:?}", other.map(|f| format!("{:?}", f).chars().take(80).collect::<String>())));
                        return;
                    }
                }
            }
        }
        None => {
            if let Some(f) = second {
                rep.violate("wire", "frame-without-tune", format!("client wrote {} although no acceptable Tune arrived (stage 1: {:?})", format!("{:?}", f).chars().take(80).collect::<String>(), stages[1]));
                return;
            }
        }
    }
    if md.close_ok {
        let has = decoded.iter().any(|f| matches!(f, AMQPFrame::Method(0, AMQPClass::Connection(Cn::CloseOk(_)))));
        if !has {
            rep.violate("wire", "close-ok-missing", "server closed instead of OpenOk: no CloseOk was written".to_string());
        }
    }
}

impl Scenario for C16 {
    fn property(&self) -> &'static str {
        "C16"
    }
    fn level(&self) -> &'static str {
        "fault_enumeration"
    }
    fn rule(&self) -> String {
        "Family 'script' (seeded): at each of the three handshake stages the simulated server plays one of {the expected method with drawn values, a leading heartbeat, Secure, Start with other mechanisms/locales, Close(code,text), an out-of-order valid frame, malformed octets, EOF, reset, silence}, against drawn client options (PLAIN/EXTERNAL, credentials, vhost, locale, channel_max, frame_max, heartbeat, information, connection_timeout on/off), with read segmentation and write fragmentation. Family 'cut' (systematic): a cooperative handshake cut by EOF and by reset at every byte offset of the server's handshake stream. Oracle: a reference model written from the property statement gives the expected result per behaviour (error kind with its payload, or a usable connection exposing the server's properties only after OpenOk); the wire oracle checks the header, StartOk/TuneOk/Open strictly in reaction to Start/Tune, their contents, CloseOk before ServerClosedConnection, and that nothing is written without its trigger; no panic; no hang unless the server is silent and no timeout is set; with a timeout the error arrives no earlier than the timeout after the last server byte and within 0.35 s after it. Non-trivial = the server deviated from the plain handshake at some stage or the stream was cut inside a frame; distinct = (stage behaviours, options, offset).".to_string()
    }
    fn plan(&self, thorough: bool, seed: u64) -> Vec<CaseSpec> {
        let mut v = plan_random("C16", "script", seed, if thorough { 400_000 } else { 20_000 });
        // systematic cuts of a cooperative handshake: its server stream is Start(~100) + Tune(20) + OpenOk(13) bytes
        let reps = if thorough { 6 } else { 1 };
        for (r, s) in seeds_for("C16", "cut", seed, reps).into_iter().enumerate() {
            for k in 0..160 {
                for kind in 0..2 {
                    v.push(CaseSpec { family: "cut".into(), seed: s.wrapping_add(r as u64), params: vec![k, kind], choices: None });
                }
            }
        }
        v
    }
    fn run_case(&self, spec: &CaseSpec, text: bool) -> CaseReport {
        let mut cs = spec.stream();
        let mut rep = CaseReport::default();
        let o;
        let mut broker = BrokerCfg::default();
        let stages: [Vec<Srv>; 3];
        let mut cut: Option<(usize, bool)> = None;
        if spec.family == "cut" {
            o = {
                let mut o = ConnOpts::default();
                o.timeout_ms = None;
                o
            };
            stages = [vec![Srv::Start { mechs: "PLAIN".into(), locales: "en_US".into() }], vec![Srv::Tune { cm: 2047, fm: 131072, hb: 0 }], vec![Srv::OpenOk]];
            let k = spec.params.first().copied().unwrap_or(0) as usize;
            let reset = spec.params.get(1).copied().unwrap_or(0) == 1;
            cut = Some((k, reset));
            broker.s2c_cut = Some((k, if reset { CutKind::Reset } else { CutKind::Eof }));
        } else {
            o = client_opts(&mut cs);
            let allow_silence = o.timeout_ms.is_some();
            stages = [gen_stage(&mut cs, 0, allow_silence), gen_stage(&mut cs, 1, allow_silence), gen_stage(&mut cs, 2, allow_silence)];
        }
        broker.handshake = Some(build_script(&stages));
        broker.server_properties = server_props();
        broker.seg_mode = pick(&mut cs, "seg_mode", &[crate::broker::SegMode::Whole, crate::broker::SegMode::Byte, crate::broker::SegMode::Random, crate::broker::SegMode::Small]).clone();
        broker.seg_gap_max_ns = *pick(&mut cs, "seg_gap", &[0u64, 20_000]);
        broker.s2c_lat_max_ns = *pick(&mut cs, "s2c_lat", &[10_000u64, 1_000_000]);
        let mut net = NetCfg::default();
        net.c2s_lat_min_ns = 1_000;
        net.c2s_lat_max_ns = *pick(&mut cs, "c2s_lat", &[1_000u64, 500_000]);
        match cs.choose("wr_profile", 3) {
            0 => {}
            1 => {
                net.wr_short_permille = 400;
            }
            _ => {
                net.wr_block_permille = 250;
                net.wr_block_max_ns = 300_000;
                net.wr_short_permille = 200;
            }
        }
        let mut sched = SchedCfg::default();
        sched.stick_pct = *pick(&mut cs, "stick", &[50u32, 0, 90]);
        sched.hang_after_ns = 200_000_000_000;
        let plan = SessionPlan { opts: o.clone(), tuning: Tuning::default(), threads: vec![], owner_ops: vec![OwnerOp::OpenChannel { id: None, keep: false }], close: CloseKind::Close, join_before_close: true };
        let gen = Generated { plan, net, broker, sched, frame_max: 131072 };
        let mut md = model(&stages, &o);
        if let Some((k, reset)) = cut {
            // the cooperative server stream: any cut before its end fails the handshake at the stage the cut falls in
            let lens: Vec<usize> = stages.iter().map(|s| s.iter().map(|x| frames_of(x).iter().map(|f| f.len()).sum::<usize>()).sum()).collect();
            let total: usize = lens.iter().sum();
            if k >= total {
                // the whole handshake got through; what the fault does to the open connection is C05's
                rep.inconclusive = Some("cut at or after the end of the handshake stream".into());
                rep.choices = cs.record.clone();
                return rep;
            }
            if k < total {
                let stage = if k < lens[0] { 0 } else if k < lens[0] + lens[1] { 1 } else { 2 };
                let mut st = stages.clone();
                st[stage] = vec![if reset { Srv::Reset } else { Srv::Eof }];
                md = model(&st, &o);
                // frames the client wrote in reaction to earlier complete frames are still expected
                if stage >= 1 {
                    md.start_ok = true;
                }
                if stage >= 2 {
                    md.tune_ok = Some((2047, 131072, 0));
                    md.open = true;
                }
            }
        }
        let (res, world) = run_generated(&gen, cs, text, |_| {});
        fill_common(&mut rep, &res, &world);
        rep.sample = serde_json::json!({"family": spec.family, "options": format!("{:?}", o), "server_stages": stages.iter().map(|s| format!("{:?}", s)).collect::<Vec<_>>(), "cut": format!("{:?}", cut), "model_expects": format!("{:?}", md.want)});
        for p in &res.run.panics {
            rep.violate("panic", format!("{}@{}", p.thread, p.location), format!("{} panicked: {}", p.thread, p.message));
        }
        let open = res.hist.conn.iter().find_map(|c| if let ConnRec::Open { result, server_properties, invoke, ret } = c { Some((result.clone(), server_properties.clone(), *invoke, *ret)) } else { None });
        let hang = hang_sig(&res.run.outcome);
        let expects_hang = matches!(&md.want, Want::Err(v) if v.contains(&"<hang>".to_string()));
        if let Some((sig, detail)) = &hang {
            if !expects_hang {
                rep.violate("hang", sig.clone(), format!("the server responded / closed / a timeout is set, yet open never returns: {} ; model expects {:?}", detail, md.want));
            }
            rep.nontrivial = true;
            rep.distinct = rep.trace_hash;
            return rep;
        }
        if rep.inconclusive.is_some() || !rep.violations.is_empty() {
            return rep;
        }
        let (result, sprops, _inv, _ret) = match open {
            Some(x) => x,
            None => {
                rep.inconclusive = Some("no open record".into());
                return rep;
            }
        };
        let n = world.net.lock().unwrap();
        match (&md.want, &result) {
            (Want::Connected, Ok(())) => rep.count("c16.want.connected", 1),
            (Want::Err(allowed), Err(_)) => rep.count(&format!("c16.want.{}", allowed[0].split('(').next().unwrap_or("")), 1),
            _ => {}
        }
        match (&md.want, &result) {
            (Want::Connected, Ok(())) => {
                if sprops.as_ref() != Some(&server_props()) {
                    rep.violate("server-properties", "differ", format!("server_properties() = {:?}", sprops));
                    return rep;
                }
                // usable: the follow-up open_channel and close worked
                for c in &res.hist.conn {
                    match c {
                        ConnRec::OpenChannel { result: Err(e), .. } => {
                            rep.violate("not-usable", "open_channel", format!("connection returned after OpenOk is not usable: open_channel -> {}", e));
                            return rep;
                        }
                        ConnRec::Close { result: Err(e), .. } => {
                            rep.violate("not-usable", "close", format!("connection returned after OpenOk: close -> {}", e));
                            return rep;
                        }
                        _ => {}
                    }
                }
            }
            (Want::Connected, Err(e)) => {
                rep.violate("open-result", format!("unexpected-error:{}", e.split('(').next().unwrap_or("")), format!("complete handshake (stages {:?}) but open failed with {}", stages, e));
                return rep;
            }
            (Want::Err(allowed), Ok(())) => {
                rep.violate("open-result", "connected-without-handshake", format!("open returned a connection although the model expects {:?} (stages {:?})", allowed, stages));
                return rep;
            }
            (Want::Err(allowed), Err(e)) => {
                if !allowed.contains(e) {
                    rep.violate("open-result", format!("{}-instead-of-{}", e.split('(').next().unwrap_or(""), allowed[0].split('(').next().unwrap_or("")), format!("open failed with {} ; the model expects one of {:?} (options {:?}, stages {:?})", e, allowed, o, stages));
                    return rep;
                }
                // timing of a timeout
                if md.silent && o.timeout_ms.is_some() {
                    let t = o.timeout_ms.unwrap_or(0) * 1_000_000;
                    let last_in = n.last_inbound_ns;
                    let at = res.run.fin.sim_ns.min(u64::MAX);
                    let _ = at;
                    // the open call's return time is not stamped in ns; use the I/O thread's stream drop time
                    let ret_ns = res.hist.conn.iter().find_map(|c| if let ConnRec::Open { .. } = c { Some(()) } else { None }).map(|_| world_drop_time(&res)).unwrap_or(0);
                    if e == "ConnectionTimeout" && ret_ns > 0 && ret_ns < last_in + t {
                        rep.violate("timeout-timing", "early", format!("ConnectionTimeout after {} ns of silence, configured {} ns", ret_ns - last_in, t));
                        return rep;
                    }
                    if ret_ns > last_in + t + 350_000_000 {
                        rep.violate("timeout-timing", "late", format!("server silent, connection_timeout {} ns configured: open failed ({}) only {} ns after the last server byte", t, e, ret_ns - last_in));
                        return rep;
                    }
                    rep.count("c16.timeouts_timed", 1);
                }
            }
        }
        check_wire(&mut rep, &md, &o, &n.c2s, &stages);
        let plain = stages[0].len() == 1 && stages[1].len() == 1 && stages[2].len() == 1 && md.want == Want::Connected;
        rep.nontrivial = !plain || cut.is_some();
        let mut h = 0xcbf29ce484222325u64;
        for b in format!("{:?}{:?}{:?}", stages, o, cut).bytes() {
            h = (h ^ b as u64).wrapping_mul(0x100000001b3);
        }
        rep.distinct = h;
        rep
    }
}

/// simulated time at which the run's last step happened: for a failed open the
/// owner thread ends right after open returns
fn world_drop_time(res: &crate::session::SessionResult) -> u64 {
    res.run.fin.sim_ns
}
