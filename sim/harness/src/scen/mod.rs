//! Per-property scenario families and oracles.
use crate::framework::*;
use crate::gen::Generated;
use crate::session::{run_session, SessionResult};
use crate::world::World;
use amiquip_simrt::{ChoiceStream, Outcome};
use serde_json::json;

pub mod c01;
pub mod c02;
pub mod c03;
pub mod c04;
pub mod c05;
pub mod c06;
pub mod c07;
pub mod c08;
pub mod c09;
pub mod c10;
pub mod c11;
pub mod c12;
pub mod c13;
pub mod c14;
pub mod c15;
pub mod c16;
pub mod c17;
pub mod c18;
pub mod c20;

pub fn all() -> Vec<Box<dyn Scenario>> {
    vec![Box::new(c01::C01), Box::new(c02::C02), Box::new(c03::C03), Box::new(c04::C04), Box::new(c05::C05), Box::new(c06::C06), Box::new(c07::C07), Box::new(c08::C08), Box::new(c09::C09), Box::new(c10::C10), Box::new(c11::C11), Box::new(c12::C12), Box::new(c13::C13), Box::new(c14::C14), Box::new(c15::C15), Box::new(c16::C16), Box::new(c17::C17), Box::new(c18::C18), Box::new(c20::C20)]
}

pub fn by_id(id: &str) -> Option<Box<dyn Scenario>> {
    all().into_iter().find(|s| s.property() == id)
}

pub fn run_generated(g: &Generated, cs: ChoiceStream, text: bool, hook: impl FnOnce(&mut World)) -> (SessionResult, World) {
    let mut sched = g.sched.clone();
    sched.record_text = text;
    let hash_seed = cs.record.iter().fold(0x12345u64, |h, c| (h ^ *c as u64).wrapping_mul(0x100000001b3));
    run_session(&g.plan, g.net.clone(), g.broker.clone(), cs, sched, hash_seed, hook)
}

/// Counters every session-based scenario reports (fault kinds that actually fired, probes).
pub fn fill_common(rep: &mut CaseReport, res: &SessionResult, world: &World) {
    let fin = &res.run.fin;
    rep.trace_hash = fin.trace_hash;
    rep.choices = fin.choices.record.clone();
    rep.sim_ns = fin.sim_ns;
    rep.steps = fin.stats.steps;
    rep.text = fin.text.clone();
    if !rep.text.is_empty() {
        rep.text.push("---- client history (invoke..return stamps)".to_string());
        for c in &res.hist.conn {
            rep.text.push(format!("conn {:?}", c).chars().take(300).collect());
        }
        for o in &res.hist.ops {
            let r: String = format!("{:?}", o.result).chars().take(160).collect();
            rep.text.push(format!("t{} #{} ch{} [{}..{}] {} -> {}", o.thread, o.idx, o.ch_id, o.invoke, o.ret, crate::expect::short_op(&o.op), r));
        }
        rep.text.push("---- broker sent (stamp, s2c range)".to_string());
        for s in &world.broker.sent {
            let k: String = format!("{:?}", s.kind).chars().take(140).collect();
            rep.text.push(format!("[{}] {}..{} {}", s.stamp, s.s2c_start, s.s2c_end, k));
        }
    }
    rep.batch_sigs = fin.stats.poll_batch_sigs.clone();
    let n = world.net.lock().unwrap();
    let s = &n.stats;
    rep.count("fault.short_write", s.short_writes);
    rep.count("fault.short_write_inside_frame", s.short_write_inside_frame);
    rep.count("fault.would_block_write", s.would_block_writes);
    rep.count("fault.would_block_write_inside_frame", s.would_block_inside_frame);
    rep.count("fault.would_block_write_at_frame_start", s.would_block_at_frame_start);
    rep.count("fault.short_read", s.short_reads);
    rep.count("fault.would_block_read", s.would_block_reads);
    rep.count("fault.eof", s.eof_injected);
    rep.count("fault.read_reset", s.rd_err_injected);
    rep.count("fault.write_error", s.wr_err_injected);
    rep.count("fault.write_stall", s.stalls);
    rep.count("fault.spurious_wakeup", s.spurious_wakeups);
    rep.count("net.segments_in", s.segments_in);
    rep.count("net.bytes_in", s.bytes_in);
    rep.count("net.bytes_out", s.bytes_out);
    rep.count("sched.switches", fin.stats.switches);
    rep.count("sched.clock_jumps", fin.stats.clock_jumps);
    rep.count("sched.io_stalls", fin.stats.io_stalls);
    rep.count("sched.client_stalls", fin.stats.client_stalls);
    rep.count("sched.pct_runs", fin.stats.pct_run);
    rep.count("sched.pct_priority_changes", fin.stats.pct_changes);
    rep.count("probe.poll_batch_ge3", if fin.stats.max_poll_batch >= 3 { 1 } else { 0 });
    let b = &world.broker.stats;
    rep.count("broker.frames_in", b.frames_in);
    rep.count("broker.frames_out", b.frames_out);
    rep.count("broker.replies", b.replies);
    rep.count("broker.deliveries", b.deliveries);
    rep.count("broker.returns", b.returns);
    rep.count("broker.confirms", b.confirms);
    rep.count("broker.mux_interleaves", b.mux_interleaves);
    rep.count("broker.scripted_actions", b.scripted_actions);
    // frames on channels whose close handshake was complete (a real broker answers 504): counted here,
    // judged by the scenarios whose property speaks about it (C09)
    rep.count("probe.frames_on_closed_channel", world.broker.client_violations.len() as u64);
    rep.count("probe.handles_across_channels", res.hist.notes.iter().filter(|n| n.starts_with("xvia-other") || n.starts_with("qvia-other")).count() as u64);
    match &res.run.outcome {
        Outcome::Finished => {}
        Outcome::StepCap => rep.inconclusive = Some("step cap".to_string()),
        Outcome::Hang(_) => rep.count("outcome.hang", 1),
    }
    if !res.run.drained {
        rep.count("outcome.undrained", 1);
    }
}

pub fn hang_sig(o: &Outcome) -> Option<(String, String)> {
    if let Outcome::Hang(ts) = o {
        let mut sig: Vec<String> = ts
            .iter()
            .map(|t| {
                let role = if t.name == "client-0" {
                    "owner"
                } else if t.name.starts_with("client-") {
                    "worker"
                } else if t.name == "amiquip-io" {
                    "io"
                } else {
                    t.name.as_str()
                };
                format!("{}@{}", role, t.last_label)
            })
            .collect();
        sig.sort();
        sig.dedup();
        let detail: Vec<String> = ts.iter().map(|t| format!("{} blocked on {} in [{}]", t.name, t.blocked_on, t.note)).collect();
        Some((sig.join(","), detail.join("; ")))
    } else {
        None
    }
}

pub fn plan_summary(g: &Generated) -> serde_json::Value {
    json!({
        "threads": g.plan.threads.iter().map(|t| json!({
            "channels": t.chan_ids.len(),
            "ops": t.ops.iter().map(|(s, o)| format!("ch-slot{} {}", s, crate::expect::short_op(o))).collect::<Vec<_>>(),
        })).collect::<Vec<_>>(),
        "frame_max": g.frame_max,
        "tuning": format!("{:?}", g.plan.tuning),
        "net": format!("{:?}", g.net),
        "broker": {"think_max_ns": g.broker.think_max_ns, "seg_mode": format!("{:?}", g.broker.seg_mode), "mux_burst_max": g.broker.mux_burst_max, "tune": format!("{:?}", g.broker.tune)},
        "sched": {"stick_pct": g.sched.stick_pct, "io_atomic": g.sched.io_atomic, "pct": g.sched.pct, "pct_points": g.sched.pct_points.clone()},
    })
}

use crate::client::{History, Op, OpRec, OpResult};

pub fn touches_channel(op: &Op) -> bool {
    !matches!(op, Op::Yield | Op::Gate(_) | Op::ReadOld | Op::ReadReturns | Op::ReadConfirms | Op::DropReturns | Op::DropConfirms | Op::ForgetConsumer { .. } | Op::Drain { .. } | Op::DropConsumer { .. } | Op::ForeignAck { .. })
}

/// "The next call on the channel fails with `want`": the first failing call of every channel
/// must carry exactly that error, unless a call whose error the program cannot see (consumer
/// drop, acks inside a drain, the implicit consumer drops before the final channel close) may
/// have been that next call.  Returns (channels checked, channels where the rule was relaxed).
pub fn first_error_rule(rep: &mut CaseReport, oracle: &str, hist: &History, want: &str, after_stamp: u64) -> (u64, u64) {
    use std::collections::BTreeMap;
    let mut per: BTreeMap<(usize, u16), Vec<&OpRec>> = BTreeMap::new();
    for o in &hist.ops {
        if o.result != OpResult::Skipped && o.ch_id != 0 {
            per.entry((o.thread, o.ch_id)).or_default().push(o);
        }
    }
    let (mut checked, mut relaxed_n) = (0, 0);
    for ((_t, ch), ops) in per {
        let has_consumers = ops.iter().any(|o| matches!(o.op, Op::Consume { .. }));
        let mut swallowed = false;
        for o in &ops {
            match &o.op {
                Op::DropConsumer { .. } => swallowed |= o.ret > after_stamp,
                Op::Drain { acks, .. } if !acks.is_empty() => swallowed |= o.ret > after_stamp,
                _ => {}
            }
            if !touches_channel(&o.op) {
                continue;
            }
            if let OpResult::Err(e) = &o.result {
                let e = e.trim_start_matches("ack-after-get:");
                let relaxed = swallowed || (o.idx >= 1_000_000 && has_consumers);
                checked += 1;
                if relaxed {
                    relaxed_n += 1;
                } else if e != want {
                    rep.violate(oracle, "first-error-kind", format!("channel {}: first failing call {} returned {}, expected {}", ch, crate::expect::short_op(&o.op), e, want));
                    return (checked, relaxed_n);
                }
                break;
            }
        }
    }
    (checked, relaxed_n)
}
