//! C12 — every API call emits exactly the AMQP method its arguments describe.
use super::*;
use crate::client::*;
use crate::gen::*;
use crate::oracles::method_oracle;

pub struct C12;

impl Scenario for C12 {
    fn property(&self) -> &'static str {
        "C12"
    }
    fn rule(&self) -> String {
        "Seeded single-connection programs covering every public operation of Channel, Queue, Exchange, Consumer, Delivery and Get (direct and through Queue/Exchange/Consumer/Get handles), every boolean option drawn independently, names 1..255 bytes, 5 argument-table shapes incl. every field type and nested tables. Oracle: a hand-written expectation table (expect.rs, from the AMQP 0-9-1 spec and the crate's documentation) gives the exact method per call; decoded method frames at the broker must equal it field by field, per channel, in order. Acking a delivery through a foreign channel must panic and write nothing. Pure translation: the simulator contributes the observation point (the wire) and the replies that make calls return. Non-trivial = >=6 distinct operation kinds in the run; distinct = hash of the multiset of (operation kind, option bits).".to_string()
    }
    fn plan(&self, thorough: bool, seed: u64) -> Vec<CaseSpec> {
        plan_random("C12", "api", seed, if thorough { 160_000 } else { 8_000 })
    }
    fn run_case(&self, spec: &CaseSpec, text: bool) -> CaseReport {
        let mut cs = spec.stream();
        let mut g = GenCfg::default();
        g.max_threads = 2;
        g.max_chans = 2;
        g.max_ops = 40;
        g.body_factor = 1;
        g.write_faults = false;
        g.read_faults = false;
        g.latency = false;
        g.drain_all = true;
        g.frame_max_choices = vec![(0, 4096), (0, 131072)];
        let mut gen = gen_session(&mut cs, &g);
        gen.sched.stick_pct = 90;
        // foreign-channel acks: thread with >=2 channels, a get that keeps its delivery, then ack through the other channel
        let mut foreign = 0;
        for t in gen.plan.threads.iter_mut() {
            if t.chan_ids.len() >= 2 && cs.choose("foreign", 2) == 1 {
                let kind = gen_ack(&mut cs);
                let kind = if kind == AckKind::None { AckKind::Ack } else { kind };
                // a consumer on the other channel, so that the foreign ack can also go through Consumer::ack & co
                t.ops.push((1, Op::Consume { queue: "q.foreign-consumer".into(), no_local: false, no_ack: false, exclusive: false, args: 0, via_queue: false }));
                let cslot = t.ops.iter().filter(|(_, o)| matches!(o, Op::Consume { .. })).count() - 1;
                t.ops.push((0, Op::GetKeep { queue: "q.foreign".into() }));
                if cs.choose("foreign_via_consumer", 2) == 1 {
                    t.ops.push((0, Op::ForeignAckViaConsumer { kind, consumer_slot: cslot }));
                } else {
                    t.ops.push((0, Op::ForeignAck { kind, other_slot: 1 }));
                }
                t.ops.push((1, Op::Cancel { slot: cslot }));
                foreign += 1;
            }
        }
        gen.broker.get_empty_permille = 200;
        let (res, world) = run_generated(&gen, cs, text, |_| {});
        let mut rep = CaseReport::default();
        fill_common(&mut rep, &res, &world);
        rep.sample = plan_summary(&gen);
        let _ = foreign;
        if let Some((sig, detail)) = hang_sig(&res.run.outcome) {
            rep.inconclusive = Some(format!("hang ({}): not C12's oracle: {}", sig, detail));
            return rep;
        }
        if rep.inconclusive.is_some() {
            return rep;
        }
        // foreign ack must have panicked (caught in the client thread) and sent nothing: the
        // expectation table has no frame for it, so a frame would show as "method-extra"
        for o in &res.hist.ops {
            if let Op::ForeignAck { .. } | Op::ForeignAckViaConsumer { .. } = &o.op {
                match &o.result {
                    OpResult::Panicked(_) => rep.count("c12.foreign_ack_panicked", 1),
                    OpResult::Skipped => {}
                    other => {
                        rep.violate("foreign-ack", "no-panic", format!("{} returned {:?} instead of panicking", crate::expect::short_op(&o.op), other));
                        return rep;
                    }
                }
            }
        }
        let n = world.net.lock().unwrap();
        method_oracle(&mut rep, &n.c2s, &res.hist, gen.frame_max);
        let mut kinds = std::collections::BTreeSet::new();
        let mut h = 0u64;
        for o in &res.hist.ops {
            let s = format!("{:?}", o.op);
            let k = s.split(|c: char| !c.is_alphanumeric()).next().unwrap_or("").to_string();
            let mut bits = 0u64;
            for (i, w) in s.split("true").enumerate() {
                bits = bits.wrapping_mul(31).wrapping_add(w.len() as u64 + i as u64);
            }
            let mut kh = 0xcbf29ce484222325u64;
            for b in k.bytes() {
                kh = (kh ^ b as u64).wrapping_mul(0x100000001b3);
            }
            h = h.wrapping_add(kh ^ bits.wrapping_mul(0x9e3779b97f4a7c15));
            kinds.insert(k);
        }
        rep.nontrivial = kinds.len() >= 6;
        rep.distinct = h;
        rep
    }
}
