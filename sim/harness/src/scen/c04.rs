//! C04 — a synchronous call returns the server's reply to that very call.
use super::*;
use crate::gen::*;
use crate::oracles::rpc_oracle;

pub struct C04;

impl Scenario for C04 {
    fn property(&self) -> &'static str {
        "C04"
    }
    fn rule(&self) -> String {
        "Seeded sessions: 1-4 worker threads x 1-3 channels issuing every synchronous operation and its nowait variant; the broker answers each call with unique values (queue names, counts, tags, get content) after a per-reply think time of up to 5 ms, so replies overtake each other across channels, and its output mux interleaves channels. Oracle: k-th synchronous call on a channel returned exactly the k-th reply generated for that channel, not before that reply was on the wire; nowait calls return without any reply. Non-trivial = >=2 channels had calls in flight concurrently (overlapping invoke/return intervals on different channels) or replies were sent in a different cross-channel order than the requests arrived; distinct = schedule trace hash. Family 'close-reopen' (channel open and close are synchronous calls too): lifecycle sessions in which worker threads close their channels with Channel::close while the server closes some of them at a random moment (so that the two Close frames may cross and the server's CloseOk for the client's Close arrives late), after which the owner re-opens exactly those ids; oracle: an open_channel(Some(n)) invoked after the client's CloseOk(n) was written returns Ok(n) (its own OpenOk, not the previous incarnation's CloseOk), connection close returns Ok, calls on the other channels get their own replies.".to_string()
    }
    fn plan(&self, thorough: bool, seed: u64) -> Vec<CaseSpec> {
        let mut v = plan_random("C04", "rpc", seed, if thorough { 200_000 } else { 12_000 });
        v.extend(plan_random("C04", "close-reopen", seed, if thorough { 60_000 } else { 4_000 }));
        v
    }
    fn run_case(&self, spec: &CaseSpec, text: bool) -> CaseReport {
        if spec.family == "close-reopen" {
            return run_close_reopen(spec, text);
        }
        let mut cs = spec.stream();
        let mut g = GenCfg::default();
        g.max_threads = 4;
        g.max_ops = 50;
        g.publish = false;
        g.listeners = false;
        g.body_factor = 1;
        g.drain_all = true;
        let mut gen = gen_session(&mut cs, &g);
        // the server cancels some consumers on its own; the client's later cancel of the same consumer
        // is still a synchronous call that must return with the server's CancelOk
        let mut next_id = 1u16;
        let mut server_cancels = 0;
        for t in gen.plan.threads.iter() {
            let base = next_id;
            next_id += t.chan_ids.len() as u16;
            let mut per_slot: std::collections::BTreeMap<usize, u32> = Default::default();
            for (slot, op) in &t.ops {
                if let crate::client::Op::Consume { .. } = op {
                    let nth = *per_slot.entry(*slot).or_insert(0);
                    per_slot.insert(*slot, nth + 1);
                    if cs.choose("server_cancel", 3) == 0 {
                        let at = 100_000 + cs.choose("server_cancel_at_us", 20_000) as u64 * 1000;
                        gen.broker.script.push((crate::broker::Trigger::AtTime(at), crate::broker::Action::CancelConsumer { ch: base + *slot as u16, nth_consumer: nth, nowait: cs.choose("nowait", 2) == 1 }));
                        server_cancels += 1;
                    }
                }
            }
        }
        let (res, world) = run_generated(&gen, cs, text, |_| {});
        let mut rep = CaseReport::default();
        fill_common(&mut rep, &res, &world);
        rep.sample = plan_summary(&gen);
        for p in &res.run.panics {
            rep.violate("panic", format!("{}@{}", p.thread, p.location), format!("{} panicked: {}", p.thread, p.message));
        }
        if let Some((sig, detail)) = hang_sig(&res.run.outcome) {
            rep.violate("hang", sig, format!("a call never returned although the broker answers every request: {}", detail));
            return rep;
        }
        if rep.inconclusive.is_some() {
            return rep;
        }
        rep.count("c04.server_cancels_scripted", server_cancels);
        rpc_oracle(&mut rep, &res.hist, &world.broker);
        // non-trivial: overlapping calls on different channels
        let mut overlap = false;
        let ops = &res.hist.ops;
        'o: for (i, a) in ops.iter().enumerate() {
            for b in ops.iter().skip(i + 1) {
                if a.thread != b.thread && a.ch_id != b.ch_id && a.invoke < b.ret && b.invoke < a.ret && a.ret > a.invoke + 2 && b.ret > b.invoke + 2 {
                    overlap = true;
                    break 'o;
                }
            }
        }
        rep.count("c04.runs_with_overlapping_calls", overlap as u64);
        rep.nontrivial = overlap;
        rep.distinct = rep.trace_hash;
        rep
    }
}

/// scheduler stamp at which the byte at `offset` of the client->server stream was written
fn stamp_of_offset(net: &crate::stream::NetState, offset: usize) -> Option<u64> {
    net.writes.iter().find(|w| w.offset <= offset && offset < w.offset + w.len).map(|w| w.stamp)
}

fn run_close_reopen(spec: &CaseSpec, text: bool) -> CaseReport {
    use crate::broker::SentKind;
    use crate::client::*;
    use crate::lifecycle::*;
    use crate::oracles::{decode_c2s, rpc_oracle_skip};
    use crate::session::OwnerOp;
    use amq_protocol::frame::AMQPFrame;
    use amq_protocol::protocol::channel::AMQPMethod as Ch;
    use amq_protocol::protocol::AMQPClass;
    let mut cs = spec.stream();
    let lc = LifeCfg {
        consumer_ends: vec![ConsumerEnd::ClientCancel, ConsumerEnd::Inherit],
        channel_ends: vec![ChannelEnd::Normal, ChannelEnd::ServerClose { code: 0, text: String::new() }, ChannelEnd::ServerClose { code: 0, text: String::new() }],
        conn_ends: vec![ConnEnd::Normal],
        max_threads: 3,
        busy_ops: 8,
        write_faults: false,
        read_faults: true,
        heartbeat: 0,
        explicit_drop_after_server_cancel: false,
        empty_publish_before_server_cancel: false,
    };
    let mut life = gen_life(&mut cs, &lc);
    let closed_ids: Vec<u16> = life.chans.iter().filter(|c| matches!(c.end, ChannelEnd::ServerClose { .. })).map(|c| c.id).collect();
    if !closed_ids.is_empty() {
        life.gen.plan.owner_ops.push(OwnerOp::JoinWorkers);
        for id in &closed_ids {
            life.gen.plan.owner_ops.push(OwnerOp::OpenChannel { id: Some(*id), keep: cs.choose("keep_reopened", 2) == 1 });
        }
    }
    let (res, world) = run_generated(&life.gen, cs, text, |_| {});
    let mut rep = CaseReport::default();
    fill_common(&mut rep, &res, &world);
    rep.sample = serde_json::json!({"family": "close-reopen", "plan": plan_summary(&life.gen), "channels": life.chans.iter().map(|c| format!("{:?}", c)).collect::<Vec<_>>(), "script": life.gen.broker.script.iter().map(|s| format!("{:?}", s)).collect::<Vec<_>>()});
    for p in &res.run.panics {
        rep.violate("panic", format!("{}@{}", p.thread, p.location), format!("{} panicked: {}", p.thread, p.message));
    }
    if let Some((sig, detail)) = hang_sig(&res.run.outcome) {
        rep.violate("hang", sig, format!("a call never returned although the broker answers every request: {}", detail));
        return rep;
    }
    if rep.inconclusive.is_some() {
        return rep;
    }
    let n = world.net.lock().unwrap();
    let per = match decode_c2s(&n.c2s) {
        Ok(p) => p,
        Err(e) => {
            rep.inconclusive = Some(format!("stream not decodable: {}", e));
            return rep;
        }
    };
    let mut closed: Vec<u16> = Vec::new();
    for s in &world.broker.sent {
        if let SentKind::ChannelClose { ch, .. } = &s.kind {
            closed.push(*ch);
        }
    }
    let mut crossed = 0u64;
    let mut reopened = 0u64;
    for ch in closed.iter() {
        if closed.iter().filter(|c| *c == ch).count() > 1 {
            continue;
        }
        let frames = per.get(ch).cloned().unwrap_or_default();
        // the client's answer to the server's close
        let ok_at: Option<u64> = frames.iter().find(|(_, _, f)| matches!(f, AMQPFrame::Method(_, AMQPClass::Channel(Ch::CloseOk(_))))).and_then(|(off, len, _)| stamp_of_offset(&n, off + len - 1));
        let ok_at = match ok_at {
            Some(s) => s,
            None => continue,
        };
        // did the client's own Close cross it (the broker then answers with a CloseOk of its own)
        let i = world.broker.sent.iter().position(|s| matches!(&s.kind, SentKind::ChannelClose { ch: c, .. } if c == ch)).unwrap();
        let answered_crossing = world.broker.sent[i + 1..]
            .iter()
            .find_map(|x| match &x.kind {
                SentKind::Reply { ch: c, method, .. } if c == ch => Some(matches!(method, AMQPClass::Channel(Ch::CloseOk(_)))),
                _ => None,
            })
            .unwrap_or(false);
        for c in &res.hist.conn {
            if let ConnRec::OpenChannel { requested: Some(id), invoke, result, for_thread: 0, .. } = c {
                if id == ch && *invoke > ok_at {
                    reopened += 1;
                    crossed += answered_crossing as u64;
                    let ok = match result {
                        Ok(got) => got == ch,
                        Err(e) => e.starts_with("ServerClosedChannel("),
                    };
                    if !ok {
                        rep.violate("open-reply", if answered_crossing { "after-crossing-close" } else { "after-server-close" }, format!("open_channel(Some({})) invoked after the client had answered the server's close of that id with CloseOk returned {:?}{}", ch, result, if answered_crossing { " (the client's own Channel.Close had crossed the server's; the server's CloseOk for it belongs to the previous incarnation)" } else { "" }));
                        return rep;
                    }
                }
            }
        }
    }
    for c in &res.hist.conn {
        if let ConnRec::Close { result: Err(e), .. } = c {
            rep.violate("open-reply", "connection-lost", format!("connection close returned {} although only channels were closed and re-opened", e));
            return rep;
        }
    }
    for o in &res.hist.ops {
        if closed.contains(&o.ch_id) || o.result == OpResult::Skipped {
            continue;
        }
        if let OpResult::Err(e) = &o.result {
            rep.violate("rpc-error", "other-channel", format!("channel {} (not closed by the server): {} failed with {}", o.ch_id, crate::expect::short_op(&o.op), e));
            return rep;
        }
    }
    rpc_oracle_skip(&mut rep, &res.hist, &world.broker, &closed);
    rep.count("c04.reopen_after_close_checked", reopened);
    rep.count("c04.reopen_after_crossing_close_checked", crossed);
    rep.nontrivial = reopened > 0;
    rep.distinct = rep.trace_hash;
    rep
}
