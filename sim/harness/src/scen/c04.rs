//! C04 — a synchronous call returns the server's reply to that very call.
use super::*;
use crate::gen::*;
use crate::oracles::rpc_oracle;

pub struct C04;

impl Scenario for C04 {
    fn property(&self) -> &'static str {
        "C04"
    }
    fn rule(&self) -> String {
        "Seeded sessions: 1-4 worker threads x 1-3 channels issuing every synchronous operation and its nowait variant; the broker answers each call with unique values (queue names, counts, tags, get content) after a per-reply think time of up to 5 ms, so replies overtake each other across channels, and its output mux interleaves channels. Oracle: k-th synchronous call on a channel returned exactly the k-th reply generated for that channel, not before that reply was on the wire; nowait calls return without any reply. Non-trivial = >=2 channels had calls in flight concurrently (overlapping invoke/return intervals on different channels) or replies were sent in a different cross-channel order than the requests arrived; distinct = schedule trace hash.".to_string()
    }
    fn plan(&self, thorough: bool, seed: u64) -> Vec<CaseSpec> {
        plan_random("C04", "rpc", seed, if thorough { 200_000 } else { 12_000 })
    }
    fn run_case(&self, spec: &CaseSpec, text: bool) -> CaseReport {
        let mut cs = spec.stream();
        let mut g = GenCfg::default();
        g.max_threads = 4;
        g.max_ops = 50;
        g.publish = false;
        g.listeners = false;
        g.body_factor = 1;
        g.drain_all = true;
        let mut gen = gen_session(&mut cs, &g);
        // the server cancels some consumers on its own; the client's later cancel of the same consumer
        // is still a synchronous call that must return with the server's CancelOk
        let mut next_id = 1u16;
        let mut server_cancels = 0;
        for t in gen.plan.threads.iter() {
            let base = next_id;
            next_id += t.chan_ids.len() as u16;
            let mut per_slot: std::collections::BTreeMap<usize, u32> = Default::default();
            for (slot, op) in &t.ops {
                if let crate::client::Op::Consume { .. } = op {
                    let nth = *per_slot.entry(*slot).or_insert(0);
                    per_slot.insert(*slot, nth + 1);
                    if cs.choose("server_cancel", 3) == 0 {
                        let at = 100_000 + cs.choose("server_cancel_at_us", 20_000) as u64 * 1000;
                        gen.broker.script.push((crate::broker::Trigger::AtTime(at), crate::broker::Action::CancelConsumer { ch: base + *slot as u16, nth_consumer: nth, nowait: cs.choose("nowait", 2) == 1 }));
                        server_cancels += 1;
                    }
                }
            }
        }
        let (res, world) = run_generated(&gen, cs, text, |_| {});
        let mut rep = CaseReport::default();
        fill_common(&mut rep, &res, &world);
        rep.sample = plan_summary(&gen);
        for p in &res.run.panics {
            rep.violate("panic", format!("{}@{}", p.thread, p.location), format!("{} panicked: {}", p.thread, p.message));
        }
        if let Some((sig, detail)) = hang_sig(&res.run.outcome) {
            rep.violate("hang", sig, format!("a call never returned although the broker answers every request: {}", detail));
            return rep;
        }
        if rep.inconclusive.is_some() {
            return rep;
        }
        rep.count("c04.server_cancels_scripted", server_cancels);
        rpc_oracle(&mut rep, &res.hist, &world.broker);
        // non-trivial: overlapping calls on different channels
        let mut overlap = false;
        let ops = &res.hist.ops;
        'o: for (i, a) in ops.iter().enumerate() {
            for b in ops.iter().skip(i + 1) {
                if a.thread != b.thread && a.ch_id != b.ch_id && a.invoke < b.ret && b.invoke < a.ret && a.ret > a.invoke + 2 && b.ret > b.invoke + 2 {
                    overlap = true;
                    break 'o;
                }
            }
        }
        rep.count("c04.runs_with_overlapping_calls", overlap as u64);
        rep.nontrivial = overlap;
        rep.distinct = rep.trace_hash;
        rep
    }
}
