//! One simulated run: the controller side (network + broker events).
use crate::broker::{Broker, BrokerCfg, BrokerEv};
use crate::stream::{new_net, Net, NetCfg, NetEv, SimStream};
use amiquip_simrt as simrt;
use simrt::{ChoiceStream, Outcome, SchedCfg};
use std::io;

pub struct World {
    pub net: Net,
    pub broker: Broker,
}

/// Harness-level events other than network / broker ones.
pub enum UserEv {
    Call(Box<dyn FnOnce(&mut World) + Send>),
}

impl World {
    pub fn new(net_cfg: NetCfg, broker_cfg: BrokerCfg) -> World {
        let net = new_net(net_cfg);
        let broker = Broker::new(broker_cfg, net.clone());
        World { net, broker }
    }

    pub fn stream(&self) -> SimStream {
        SimStream::new(self.net.clone())
    }

    pub fn handle(&mut self, ev: simrt::Event) {
        let payload = ev.payload;
        let payload = match payload.downcast::<NetEv>() {
            Ok(ne) => {
                self.on_net(*ne);
                return;
            }
            Err(p) => p,
        };
        let payload = match payload.downcast::<BrokerEv>() {
            Ok(be) => {
                self.broker.on_event(*be);
                return;
            }
            Err(p) => p,
        };
        match payload.downcast::<UserEv>() {
            Ok(ue) => match *ue {
                UserEv::Call(f) => f(self),
            },
            Err(_) => panic!("unknown event payload"),
        }
    }

    fn on_net(&mut self, ev: NetEv) {
        match ev {
            NetEv::C2S { upto } => {
                let bytes = {
                    let mut n = self.net.lock().unwrap();
                    let from = n.delivered_to_broker;
                    if upto <= from {
                        return;
                    }
                    n.delivered_to_broker = upto;
                    n.c2s[from..upto].to_vec()
                };
                self.broker.on_bytes(&bytes);
            }
            NetEv::S2C { bytes } => {
                let mut n = self.net.lock().unwrap();
                if n.dropped {
                    return;
                }
                n.stats.segments_in += 1;
                n.stats.bytes_in += bytes.len() as u64;
                n.inbound.extend(bytes.iter());
                n.last_inbound_ns = simrt::now_ns();
                let total = n.stats.bytes_in as usize;
                let now = simrt::now_ns();
                n.arrivals.push((now, total));
                simrt::trace("net.s2c", bytes.len() as u64, 0);
                n.announce();
            }
            NetEv::Writable => {
                let mut n = self.net.lock().unwrap();
                n.wr_blocked = false;
                simrt::trace("net.writable", 0, 0);
                n.announce();
            }
            NetEv::S2CEof => {
                let mut n = self.net.lock().unwrap();
                n.rd_eof = true;
                n.stats.eof_injected += 1;
                simrt::trace("net.eof", 0, 0);
                n.announce();
            }
            NetEv::S2CReset => {
                let mut n = self.net.lock().unwrap();
                let k = crate::stream::ERR_KINDS[n.cfg.err_kind % crate::stream::ERR_KINDS.len()];
                n.rd_err = Some(k);
                n.wr_err = Some(k);
                n.stats.rd_err_injected += 1;
                simrt::trace("net.reset", 0, 0);
                n.announce();
            }
            NetEv::Spurious => {
                let mut n = self.net.lock().unwrap();
                n.stats.spurious_wakeups += 1;
                // readable|writable although nothing changed: legal per mio docs
                if let Some(sr) = &n.set_readiness {
                    let _ = sr.set_readiness(mio::Ready::readable() | mio::Ready::writable());
                    simrt::effect(simrt::Key::Poll);
                }
            }
        }
    }

    /// Begin / end an externally imposed write stall.
    pub fn set_stall(&mut self, on: bool) {
        let mut n = self.net.lock().unwrap();
        n.stalled = on;
        if on {
            n.stats.stalls += 1;
        }
        n.announce();
    }
}

pub fn call_in(delay_ns: u64, f: impl FnOnce(&mut World) + Send + 'static) {
    simrt::schedule_in(delay_ns, true, "user.call", Box::new(UserEv::Call(Box::new(f))));
}

pub struct RunResult {
    /// scheduler stamp at which the I/O thread finished (None: it never did)
    pub io_exit: Option<u64>,
    pub outcome: Outcome,
    pub drained: bool,
    pub fin: simrt::Finished,
    pub panics: Vec<simrt::PanicRecord>,
}

/// Execute one run: `setup` runs on the controller inside the simulation and
/// spawns the client threads; afterwards events and threads run until done.
pub fn run_sim<S>(choices: ChoiceStream, sched: SchedCfg, hash_seed: u64, world: &mut World, setup: S) -> RunResult
where
    S: FnOnce(&mut World),
{
    simrt::take_panics();
    simrt::start(choices, sched, hash_seed);
    setup(world);
    let outcome = simrt::run(|ev| world.handle(ev));
    let io_exit = simrt::io_thread_exit_stamp();
    let drained = match outcome {
        Outcome::Finished => true,
        _ => simrt::drain(2_000_000),
    };
    let fin = simrt::finish();
    let panics = simrt::take_panics();
    RunResult { io_exit, outcome, drained, fin, panics }
}
