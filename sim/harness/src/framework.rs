//! Scenario interface, case reports, replay files.
use amiquip_simrt::ChoiceStream;
use serde_json::{json, Value};
use std::collections::BTreeMap;

#[derive(Clone, Debug, PartialEq)]
pub struct CaseSpec {
    pub family: String,
    /// run seed (generation mode) — ignored when `choices` is given
    pub seed: u64,
    /// enumerated (systematic) parameters of the case, if any
    pub params: Vec<i64>,
    /// replay mode
    pub choices: Option<Vec<u32>>,
}

impl CaseSpec {
    pub fn stream(&self) -> ChoiceStream {
        match &self.choices {
            Some(v) => ChoiceStream::replay(v.clone()),
            None => ChoiceStream::generate(self.seed),
        }
    }
    pub fn to_json(&self) -> Value {
        json!({"family": self.family, "seed": self.seed, "params": self.params, "choices": self.choices})
    }
    pub fn from_json(v: &Value) -> CaseSpec {
        CaseSpec {
            family: v["family"].as_str().unwrap_or("").to_string(),
            seed: v["seed"].as_u64().unwrap_or(0),
            params: v["params"].as_array().map(|a| a.iter().map(|x| x.as_i64().unwrap_or(0)).collect()).unwrap_or_default(),
            choices: v["choices"].as_array().map(|a| a.iter().map(|x| x.as_u64().unwrap_or(0) as u32).collect()),
        }
    }
}

#[derive(Clone, Debug, PartialEq)]
pub struct Violation {
    /// which oracle of the property fired
    pub oracle: String,
    /// stable signature (site / kind), used for minimisation and known-findings matching
    pub sig: String,
    pub detail: String,
}

impl Violation {
    pub fn new(oracle: &str, sig: impl Into<String>, detail: impl Into<String>) -> Violation {
        Violation { oracle: oracle.to_string(), sig: sig.into(), detail: detail.into() }
    }
    pub fn key(&self) -> String {
        format!("{}|{}", self.oracle, self.sig)
    }
}

#[derive(Clone, Debug, Default)]
pub struct CaseReport {
    pub violations: Vec<Violation>,
    pub inconclusive: Option<String>,
    pub nontrivial: bool,
    /// hash identifying the case for the distinct count (schedule trace ^ workload)
    pub distinct: u64,
    pub trace_hash: u64,
    pub choices: Vec<u32>,
    pub counters: BTreeMap<String, u64>,
    pub sim_ns: u64,
    pub steps: u64,
    pub sample: Value,
    pub text: Vec<String>,
    pub batch_sigs: Vec<u64>,
}

impl CaseReport {
    pub fn count(&mut self, k: &str, n: u64) {
        if n > 0 {
            *self.counters.entry(k.to_string()).or_insert(0) += n;
        }
    }
    pub fn violate(&mut self, oracle: &str, sig: impl Into<String>, detail: impl Into<String>) {
        self.violations.push(Violation::new(oracle, sig, detail));
    }
}

pub trait Scenario: Sync {
    fn property(&self) -> &'static str;
    fn level(&self) -> &'static str {
        "exploration"
    }
    fn rule(&self) -> String;
    fn assumptions(&self) -> Vec<String> {
        Vec::new()
    }
    /// The cases of a tier, in a fixed order (pure function of tier and seed).
    fn plan(&self, thorough: bool, verif_seed: u64) -> Vec<CaseSpec>;
    /// The same plan as an indexable view.  Scenarios with tens of millions of tiny cases override this with a
    /// view that computes case i on demand: 17 processes each holding a materialised 27-million-entry plan
    /// need ~50 GB.
    fn plan_view(&self, thorough: bool, verif_seed: u64) -> PlanView {
        PlanView::Listed(self.plan(thorough, verif_seed))
    }
    fn run_case(&self, spec: &CaseSpec, text: bool) -> CaseReport;
    /// whether the systematic part of the plan enumerates its finite space completely
    fn exhaustive(&self, _thorough: bool) -> bool {
        false
    }
    /// address-space limit for worker processes (0 = none)
    fn memory_limit(&self) -> u64 {
        0
    }
    fn real_vs_stub(&self) -> Value {
        json!({
            "real": ["amiquip (all of src/ except TLS stream and URL/TCP open)", "amq-protocol", "cookie-factory", "input_buffer",
                     "mio Poll/Registration/readiness queue", "mio-extras channel (+ std mpsc inside)", "crossbeam-channel",
                     "mio-extras timer wheel (vendored copy)", "indexmap", "snafu", "OS threads, unwinding, join"],
            "simulated": ["TCP socket and kernel buffers (SimStream)", "network latency/segmentation", "broker", "OS scheduler decisions (baton)",
                          "clock (Instant) and timer wake-up thread", "HashMap RandomState"],
            "not_run": ["native-tls path", "Connection::{open,insecure_open} URL/TCP path", "Windows-only behaviour"]
        })
    }
}

pub fn seeds_for(prop: &str, family: &str, verif_seed: u64, n: usize) -> Vec<u64> {
    let mut h = 0xcbf29ce484222325u64;
    for b in prop.bytes().chain(family.bytes()) {
        h ^= b as u64;
        h = h.wrapping_mul(0x100000001b3);
    }
    (0..n as u64).map(|i| amiquip_simrt::choice::mix(verif_seed, h, i)).collect()
}

/// Consecutive blocks of seeded cases: block k holds `n` cases of family `family`, case i has the seed
/// `seeds_for(prop, family, verif_seed, n)[i]` - exactly what `plan_random` lists.
pub struct RandomBlock {
    pub prop: &'static str,
    pub family: &'static str,
    pub n: usize,
}

pub enum PlanView {
    Listed(Vec<CaseSpec>),
    Blocks { verif_seed: u64, blocks: Vec<RandomBlock> },
}

impl PlanView {
    pub fn len(&self) -> usize {
        match self {
            PlanView::Listed(v) => v.len(),
            PlanView::Blocks { blocks, .. } => blocks.iter().map(|b| b.n).sum(),
        }
    }
    pub fn get(&self, i: usize) -> Option<CaseSpec> {
        match self {
            PlanView::Listed(v) => v.get(i).cloned(),
            PlanView::Blocks { verif_seed, blocks } => {
                let mut i = i;
                for b in blocks {
                    if i < b.n {
                        let mut h = 0xcbf29ce484222325u64;
                        for x in b.prop.bytes().chain(b.family.bytes()) {
                            h ^= x as u64;
                            h = h.wrapping_mul(0x100000001b3);
                        }
                        return Some(CaseSpec { family: b.family.to_string(), seed: amiquip_simrt::choice::mix(*verif_seed, h, i as u64), params: vec![], choices: None });
                    }
                    i -= b.n;
                }
                None
            }
        }
    }
}

pub fn plan_random(prop: &str, family: &str, verif_seed: u64, n: usize) -> Vec<CaseSpec> {
    seeds_for(prop, family, verif_seed, n)
        .into_iter()
        .map(|s| CaseSpec { family: family.to_string(), seed: s, params: vec![], choices: None })
        .collect()
}

pub fn replay_file_json(prop: &str, spec: &CaseSpec, v: &Violation, text: &[String], minimised: bool, original_len: usize) -> Value {
    json!({
        "property": prop,
        "case": spec.to_json(),
        "violation": {"oracle": v.oracle, "sig": v.sig, "detail": v.detail},
        "minimised": minimised,
        "original_choice_len": original_len,
        "trace": text,
    })
}
