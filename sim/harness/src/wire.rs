//! Wire-level helpers of the simulated broker: an envelope parser that is
//! independent of amiquip's FrameBuffer, and frame generation through
//! amq-protocol (trusted base).
use amq_protocol::frame::generation::{
    gen_content_body_frame, gen_content_header_frame, gen_heartbeat_frame, gen_method_frame,
};
use amq_protocol::frame::{parse_frame, AMQPFrame};
use amq_protocol::protocol::basic::AMQPProperties;
use amq_protocol::protocol::AMQPClass;
use cookie_factory::GenError;

pub const PROTOCOL_HEADER: &[u8; 8] = b"AMQP\x00\x00\x09\x01";

#[derive(Clone, Debug, PartialEq)]
pub struct RawFrame {
    /// offset of the first byte of the frame in the client->server stream
    pub offset: usize,
    pub ty: u8,
    pub channel: u16,
    pub payload_len: usize,
    /// whole frame including 7 byte header and end octet
    pub bytes: Vec<u8>,
}

#[derive(Clone, Debug, PartialEq)]
pub enum EnvelopeError {
    BadProtocolHeader(Vec<u8>),
    BadType { offset: usize, ty: u8 },
    BadEnd { offset: usize, end: u8 },
    Trailing { offset: usize, len: usize },
}

/// Split `bytes` (a complete client->server stream) into the protocol header
/// and frames.  `complete` = the stream is over, so a partial frame at the end
/// is an error (Trailing).
pub fn split_stream(bytes: &[u8], complete: bool) -> Result<(bool, Vec<RawFrame>, usize), EnvelopeError> {
    let mut frames = Vec::new();
    if bytes.len() < 8 {
        if complete && !bytes.is_empty() {
            return Err(EnvelopeError::Trailing { offset: 0, len: bytes.len() });
        }
        return Ok((false, frames, 0));
    }
    if &bytes[..8] != PROTOCOL_HEADER {
        return Err(EnvelopeError::BadProtocolHeader(bytes[..8].to_vec()));
    }
    let mut pos = 8;
    loop {
        let rest = &bytes[pos..];
        if rest.is_empty() {
            break;
        }
        if rest.len() < 7 {
            if complete {
                return Err(EnvelopeError::Trailing { offset: pos, len: rest.len() });
            }
            break;
        }
        let ty = rest[0];
        if !(ty == 1 || ty == 2 || ty == 3 || ty == 8) {
            return Err(EnvelopeError::BadType { offset: pos, ty });
        }
        let channel = u16::from_be_bytes([rest[1], rest[2]]);
        let size = u32::from_be_bytes([rest[3], rest[4], rest[5], rest[6]]) as usize;
        if rest.len() < size + 8 {
            if complete {
                return Err(EnvelopeError::Trailing { offset: pos, len: rest.len() });
            }
            break;
        }
        let end = rest[7 + size];
        if end != 0xCE {
            return Err(EnvelopeError::BadEnd { offset: pos, end });
        }
        frames.push(RawFrame { offset: pos, ty, channel, payload_len: size, bytes: rest[..size + 8].to_vec() });
        pos += size + 8;
    }
    Ok((true, frames, pos))
}

pub fn decode(raw: &RawFrame) -> Option<AMQPFrame> {
    match parse_frame(&raw.bytes) {
        Ok((rest, mut f)) if rest.is_empty() => {
            fix_flags(&raw.bytes, &mut f);
            Some(f)
        }
        _ => None,
    }
}

/// amq-protocol 1.4.0's *parser* looks flags with a hyphen in their spec name
/// ("auto-delete", "if-unused", "if-empty", "no-ack", "no-local") up under the
/// underscore name and therefore always reads them as false (its generator, which
/// amiquip uses, is right; no server->client method has such a flag).  The broker
/// decodes those bits itself, straight from the octets.
fn fix_flags(bytes: &[u8], f: &mut AMQPFrame) {
    use amq_protocol::protocol::basic::AMQPMethod as B;
    use amq_protocol::protocol::exchange::AMQPMethod as Ex;
    use amq_protocol::protocol::queue::AMQPMethod as Q;
    // payload starts at 7: class(2) method(2) then arguments
    let p = &bytes[7..bytes.len() - 1];
    fn skip_shortstr(p: &[u8], at: usize) -> Option<usize> {
        let n = *p.get(at)? as usize;
        if at + 1 + n <= p.len() {
            Some(at + 1 + n)
        } else {
            None
        }
    }
    let bit = |b: u8, i: u8| b & (1 << i) != 0;
    if let AMQPFrame::Method(_, class) = f {
        match class {
            AMQPClass::Exchange(Ex::Declare(d)) => {
                // ticket(2) exchange type flags
                if let Some(a) = skip_shortstr(p, 6).and_then(|a| skip_shortstr(p, a)) {
                    if let Some(b) = p.get(a) {
                        d.passive = bit(*b, 0);
                        d.durable = bit(*b, 1);
                        d.auto_delete = bit(*b, 2);
                        d.internal = bit(*b, 3);
                        d.nowait = bit(*b, 4);
                    }
                }
            }
            AMQPClass::Exchange(Ex::Delete(d)) => {
                if let Some(a) = skip_shortstr(p, 6) {
                    if let Some(b) = p.get(a) {
                        d.if_unused = bit(*b, 0);
                        d.nowait = bit(*b, 1);
                    }
                }
            }
            AMQPClass::Queue(Q::Declare(d)) => {
                if let Some(a) = skip_shortstr(p, 6) {
                    if let Some(b) = p.get(a) {
                        d.passive = bit(*b, 0);
                        d.durable = bit(*b, 1);
                        d.exclusive = bit(*b, 2);
                        d.auto_delete = bit(*b, 3);
                        d.nowait = bit(*b, 4);
                    }
                }
            }
            AMQPClass::Queue(Q::Delete(d)) => {
                if let Some(a) = skip_shortstr(p, 6) {
                    if let Some(b) = p.get(a) {
                        d.if_unused = bit(*b, 0);
                        d.if_empty = bit(*b, 1);
                        d.nowait = bit(*b, 2);
                    }
                }
            }
            AMQPClass::Basic(B::Consume(d)) => {
                // ticket queue consumer-tag flags
                if let Some(a) = skip_shortstr(p, 6).and_then(|a| skip_shortstr(p, a)) {
                    if let Some(b) = p.get(a) {
                        d.no_local = bit(*b, 0);
                        d.no_ack = bit(*b, 1);
                        d.exclusive = bit(*b, 2);
                        d.nowait = bit(*b, 3);
                    }
                }
            }
            AMQPClass::Basic(B::Get(d)) => {
                if let Some(a) = skip_shortstr(p, 6) {
                    if let Some(b) = p.get(a) {
                        d.no_ack = bit(*b, 0);
                    }
                }
            }
            _ => {}
        }
    }
}

fn serialize<F: Fn(&mut [u8], usize) -> Result<(&mut [u8], usize), GenError>>(buf: &mut Vec<u8>, f: F) {
    let pos = buf.len();
    let mut size = pos + 64;
    loop {
        buf.resize(size, 0);
        match f(buf, pos) {
            Ok((_, end)) => {
                buf.truncate(end);
                return;
            }
            Err(GenError::BufferTooSmall(n)) => size = n.max(size * 2),
            Err(e) => panic!("serialization error {:?}", e),
        }
    }
}

pub fn method(buf: &mut Vec<u8>, channel: u16, class: &AMQPClass) {
    serialize(buf, |b, p| gen_method_frame((b, p), channel, class))
}

pub fn header(buf: &mut Vec<u8>, channel: u16, class_id: u16, len: u64, props: &AMQPProperties) {
    serialize(buf, |b, p| gen_content_header_frame((b, p), channel, class_id, len, props))
}

pub fn body(buf: &mut Vec<u8>, channel: u16, content: &[u8]) {
    serialize(buf, |b, p| gen_content_body_frame((b, p), channel, content))
}

pub fn heartbeat(buf: &mut Vec<u8>) {
    serialize(buf, |b, p| gen_heartbeat_frame((b, p)))
}

/// raw frame with arbitrary type / channel / payload / end octet (for malformed input)
pub fn raw(buf: &mut Vec<u8>, ty: u8, channel: u16, payload: &[u8], end: u8) {
    buf.push(ty);
    buf.extend_from_slice(&channel.to_be_bytes());
    buf.extend_from_slice(&(payload.len() as u32).to_be_bytes());
    buf.extend_from_slice(payload);
    buf.push(end);
}

pub fn fnv(bytes: &[u8]) -> u64 {
    let mut h = 0xcbf29ce484222325u64;
    for b in bytes {
        h ^= *b as u64;
        h = h.wrapping_mul(0x100000001b3);
    }
    h
}
