//! Sessions with endings: consumers, channels and the connection are ended by
//! either side (or by a crash) while other threads are busy.  Shared by C05,
//! C08, C09, C11.
use crate::broker::{Action, CloseOkMode, Trigger};
use crate::client::*;
use crate::gen::*;
use crate::session::*;
use amiquip_simrt::ChoiceStream;

#[derive(Clone, Debug, PartialEq)]
pub enum ConsumerEnd {
    ClientCancel,
    ClientCancelTwice,
    Drop,
    /// the application drops the Consumer together with its receiver (nothing to drain afterwards)
    DropWhole,
    ServerCancel { nowait: bool },
    /// ends with its channel or the connection
    Inherit,
}

#[derive(Clone, Debug, PartialEq)]
pub enum ChannelEnd {
    /// closed by finish() after everything else
    Normal,
    /// client closes it while consumers are attached (consumers forgotten first)
    ClientCloseWithConsumers,
    ServerClose { code: u16, text: String },
}

#[derive(Clone, Debug, PartialEq)]
pub enum ConnEnd {
    Normal,
    /// owner closes while workers are still busy
    ClientCloseEarly { after_ns: u64 },
    ServerClose { code: u16, text: String },
}

#[derive(Clone, Debug)]
pub struct LifeCfg {
    pub consumer_ends: Vec<ConsumerEnd>,
    pub channel_ends: Vec<ChannelEnd>,
    pub conn_ends: Vec<ConnEnd>,
    pub max_threads: u32,
    pub busy_ops: u32,
    pub write_faults: bool,
    pub read_faults: bool,
    pub heartbeat: u16,
    /// a consumer the server cancels is also dropped explicitly by its thread (an operation the call-pairing
    /// oracles can see) instead of implicitly at the end of the thread
    pub explicit_drop_after_server_cancel: bool,
    /// directed: for some server-cancelled consumers the last thing their thread does on the channel before the
    /// (late) cancel arrives is a publish with an empty body
    pub empty_publish_before_server_cancel: bool,
}

#[derive(Clone, Debug)]
pub struct ChanInfo {
    pub thread: usize,
    pub slot: usize,
    pub id: u16,
    pub end: ChannelEnd,
}

#[derive(Clone, Debug)]
pub struct ConsInfo {
    pub thread: usize,
    pub cslot: usize,
    pub ch: u16,
    pub nth_on_channel: u32,
    pub end: ConsumerEnd,
}

pub struct Life {
    pub gen: Generated,
    pub chans: Vec<ChanInfo>,
    pub consumers: Vec<ConsInfo>,
    pub conn_end: ConnEnd,
}

fn text_for(cs: &mut ChoiceStream, what: &str) -> String {
    // unique (the oracles attribute an error to its close by code and text); one in eight is as long as a
    // short string can be
    let t = format!("{}-{}", what, cs.choose("close_text", 100000));
    if cs.choose("close_text_long", 8) == 7 {
        format!("{:-<255}", t)
    } else {
        t
    }
}

/// Reply codes: "for every reply code" - the AMQP ones, 200 (reply-success, unusual but legal in a close), 0, 1,
/// the largest, and anything in between.
fn code_for(cs: &mut ChoiceStream, base: u16, span: u32) -> u16 {
    match cs.choose("close_code_kind", 8) {
        0 => 200,
        1 => *pick(cs, "close_code_edge", &[0u16, 1, 199, 201, 65535, 311, 320, 402, 403, 404, 405, 406, 501, 502, 503, 504, 505, 506, 530, 540, 541]),
        _ => base + cs.choose("close_code", span) as u16,
    }
}

pub fn gen_life(cs: &mut ChoiceStream, lc: &LifeCfg) -> Life {
    let mut g = GenCfg::default();
    g.write_faults = lc.write_faults;
    g.read_faults = lc.read_faults;
    g.consume = false; // consumers are placed by this generator
    g.listeners = false;
    g.body_factor = 2;
    g.heartbeat = lc.heartbeat;
    g.frame_max_choices = vec![(0, 4096), (4096, 131072), (0, 8192)];
    let (cfm, sfm) = *pick(cs, "frame_max_pair", &g.frame_max_choices);
    let frame_max = negotiated_frame_max(cfm, sfm);
    let p = frame_max - 8;
    let sched = gen_sched(cs);
    let net = gen_net(cs, &g);
    let mut broker = gen_broker(cs, &g, sfm, p.min(8192));
    broker.deliveries_min = 0;
    broker.deliveries_max = 5;
    broker.closeok_mode = pick(cs, "closeok_mode", &[CloseOkMode::Later, CloseOkMode::SameSegment]).clone();
    let conn_end = pick(cs, "conn_end", &lc.conn_ends).clone();
    let conn_end = match conn_end {
        ConnEnd::ClientCloseEarly { .. } => ConnEnd::ClientCloseEarly { after_ns: 1_000 * (1 + cs.choose("close_after_us", 20_000) as u64) },
        ConnEnd::ServerClose { .. } => ConnEnd::ServerClose { code: code_for(cs, 300, 250), text: text_for(cs, "CONNECTION_FORCED") },
        x => x,
    };
    let n_threads = 1 + cs.choose("n_threads", lc.max_threads) as usize;
    let mut threads = Vec::new();
    let mut chans = Vec::new();
    let mut consumers = Vec::new();
    let mut used_ids: Vec<u16> = Vec::new();
    let mut late_cancels: Vec<usize> = Vec::new();
    for t in 0..n_threads {
        let thread_no = t + 1;
        let n_chans = 1 + cs.choose("n_chans", 2) as usize;
        let mut ids = Vec::new();
        for s in 0..n_chans {
            let mut id = 1 + cs.choose("chan_id", 12) as u16;
            while used_ids.contains(&id) {
                id = id % 40 + 1;
            }
            used_ids.push(id);
            ids.push(Some(id));
            let end = pick(cs, "chan_end", &lc.channel_ends).clone();
            let end = match end {
                ChannelEnd::ServerClose { .. } => ChannelEnd::ServerClose { code: code_for(cs, 400, 100), text: text_for(cs, "PRECONDITION_FAILED") },
                x => x,
            };
            chans.push(ChanInfo { thread: thread_no, slot: s, id, end });
        }
        let mut ops: Vec<(usize, Op)> = Vec::new();
        // phase A: consumers
        let mut my_cons: Vec<usize> = Vec::new();
        for s in 0..n_chans {
            let nc = cs.choose("n_consumers", 3);
            for k in 0..nc {
                let idx = ops.len();
                let mark = format!("t{}o{}", thread_no, idx);
                ops.push((s, Op::Consume { queue: format!("q.{}", mark), no_local: false, no_ack: cs.choose("no_ack", 2) == 1, exclusive: false, args: 0, via_queue: false }));
                let chinfo = chans.iter().find(|c| c.thread == thread_no && c.slot == s).unwrap();
                let inherit_ok = chinfo.end != ChannelEnd::Normal || conn_end != ConnEnd::Normal;
                let mut end = pick(cs, "consumer_end", &lc.consumer_ends).clone();
                if end == ConsumerEnd::Inherit && !inherit_ok {
                    end = ConsumerEnd::ClientCancel;
                }
                if let ConsumerEnd::ServerCancel { .. } = end {
                    end = ConsumerEnd::ServerCancel { nowait: cs.choose("srv_cancel_nowait", 2) == 1 };
                }
                consumers.push(ConsInfo { thread: thread_no, cslot: my_cons.len(), ch: ids[s].unwrap(), nth_on_channel: k, end });
                my_cons.push(consumers.len() - 1);
            }
        }
        // phase B: busy work
        let n_busy = cs.choose("n_busy", lc.busy_ops + 1) as usize;
        let mut gb = GenCfg::default();
        gb.consume = false;
        gb.listeners = false;
        gb.body_factor = 2;
        gb.via_handles = false;
        let tg = gen_thread(cs, &gb, thread_no, n_chans, n_busy, p.min(8192));
        // marks depend on the op index: regenerate names is unnecessary, marks are computed at run time
        ops.extend(tg.ops);
        // directed (C11): an empty-body publish as the channel's last request before a late server cancel
        if lc.empty_publish_before_server_cancel {
            for ci in &my_cons {
                let c = consumers[*ci].clone();
                if let ConsumerEnd::ServerCancel { .. } = c.end {
                    if cs.choose("empty_publish_then_cancel", 3) == 0 {
                        let slot = chans.iter().find(|x| x.thread == thread_no && x.id == c.ch).unwrap().slot;
                        ops.push((slot, Op::Publish { exchange: "x.empty".into(), rk: format!("rk.empty.{}", ci), mandatory: false, immediate: false, props: 0, body_len: 0, via_exchange: false }));
                        late_cancels.push(*ci);
                    }
                }
            }
        }
        // phase C: client-side endings
        for ci in &my_cons {
            let c = consumers[*ci].clone();
            let slot = chans.iter().find(|x| x.thread == thread_no && x.id == c.ch).unwrap().slot;
            match c.end {
                ConsumerEnd::ClientCancel => ops.push((slot, Op::Cancel { slot: c.cslot })),
                ConsumerEnd::ClientCancelTwice => {
                    ops.push((slot, Op::Cancel { slot: c.cslot }));
                    ops.push((slot, Op::Cancel { slot: c.cslot }));
                }
                ConsumerEnd::Drop => ops.push((slot, Op::DropConsumer { slot: c.cslot, whole: false })),
                ConsumerEnd::DropWhole => ops.push((slot, Op::DropConsumer { slot: c.cslot, whole: true })),
                ConsumerEnd::ServerCancel { .. } if lc.explicit_drop_after_server_cancel => ops.push((slot, Op::DropConsumer { slot: c.cslot, whole: false })),
                _ => {}
            }
        }
        for ch in chans.iter().filter(|x| x.thread == thread_no) {
            if ch.end == ChannelEnd::ClientCloseWithConsumers {
                for ci in &my_cons {
                    let c = &consumers[*ci];
                    if c.ch == ch.id {
                        ops.push((ch.slot, Op::ForgetConsumer { slot: c.cslot }));
                    }
                }
                ops.push((ch.slot, Op::CloseChannel));
            }
        }
        // phase D: drain everything to its end
        for ci in &my_cons {
            let c = consumers[*ci].clone();
            let slot = chans.iter().find(|x| x.thread == thread_no && x.id == c.ch).unwrap().slot;
            let acks = if cs.choose("drain_acks", 2) == 1 { vec![gen_ack(cs)] } else { vec![] };
            if c.end == ConsumerEnd::DropWhole {
                continue;
            }
            ops.push((slot, Op::Drain { slot: c.cslot, max: None, acks, via_consumer: false }));
        }
        threads.push(ThreadPlan { chan_ids: ids, ops, close_channels: true });
    }
    // server-side events
    let t_max_us = 30_000u32;
    for (ci, c) in consumers.iter().enumerate() {
        if let ConsumerEnd::ServerCancel { nowait } = c.end {
            let mut at = 1_000 * (50 + cs.choose("srv_cancel_at_us", t_max_us) as u64);
            if late_cancels.contains(&ci) {
                at = 1_000 * (t_max_us as u64 + 10_000 + cs.choose("late_cancel_us", 5_000) as u64);
            }
            broker.script.push((Trigger::AtTime(at), Action::CancelConsumer { ch: c.ch, nth_consumer: c.nth_on_channel, nowait }));
        }
    }
    for ch in &chans {
        if let ChannelEnd::ServerClose { code, text } = &ch.end {
            let action = Action::CloseChannel { ch: ch.id, code: *code, text: text.clone() };
            match cs.choose("srv_chclose_trigger", 3) {
                0 => broker.script.push((Trigger::AtTime(1_000 * (50 + cs.choose("srv_chclose_at_us", t_max_us) as u64)), action)),
                k => {
                    // instead of / after the nth request on that channel, with a late fallback
                    let nth = 1 + cs.choose("srv_chclose_nth", 6);
                    broker.script.push((Trigger::OnRequest { ch: ch.id, nth, instead: k == 1 }, action.clone()));
                    broker.script.push((Trigger::AtTime(1_000 * (t_max_us as u64 + 20_000)), action));
                }
            }
        }
    }
    let mut owner_ops = Vec::new();
    let mut join_before_close = true;
    match &conn_end {
        ConnEnd::Normal => {}
        ConnEnd::ClientCloseEarly { after_ns } => {
            owner_ops.push(OwnerOp::SleepNs(*after_ns));
            join_before_close = false;
        }
        ConnEnd::ServerClose { code, text } => {
            let at = 1_000 * (50 + cs.choose("srv_close_at_us", t_max_us) as u64);
            broker.script.push((Trigger::AtTime(at), Action::CloseConnection { code: *code, text: text.clone() }));
        }
    }
    let mut opts = ConnOpts::default();
    opts.frame_max = cfm;
    opts.heartbeat = lc.heartbeat;
    let tuning = Tuning { bound: *pick(cs, "bound", &[16usize, 1, 2, 0]), high: 16 << 20, low: 0 };
    let plan = SessionPlan { opts, tuning, threads, owner_ops, close: CloseKind::Close, join_before_close };
    Life { gen: Generated { plan, net, broker, sched, frame_max }, chans, consumers, conn_end }
}
