//! Oracles over the recorded history of a session (client calls, broker log, wire).
use crate::broker::{Broker, Message, SentKind, SentRec};
use crate::client::*;
use crate::expect::*;
use crate::framework::CaseReport;
use crate::wire;
use amq_protocol::frame::AMQPFrame;
use amq_protocol::protocol::basic::AMQPMethod as B;
use amq_protocol::protocol::channel::AMQPMethod as Ch;
use amq_protocol::protocol::confirm::AMQPMethod as Cf;
use amq_protocol::protocol::exchange::AMQPMethod as Ex;
use amq_protocol::protocol::queue::AMQPMethod as Q;
use amq_protocol::protocol::AMQPClass;
use std::collections::BTreeMap;

fn trunc(s: &str, n: usize) -> String {
    s.chars().take(n).collect()
}

pub fn msg_eq(g: &GotMsg, m: &Message) -> bool {
    g.delivery_tag == m.delivery_tag && g.redelivered == m.redelivered && g.exchange == m.exchange && g.routing_key == m.routing_key && g.properties == m.properties && g.body == m.body
}

/// What a synchronous client call expects back.
#[derive(Clone, Debug, PartialEq)]
pub enum Want {
    QueueDeclareOk,
    QueueBindOk,
    QueueUnbindOk,
    QueuePurgeOk,
    QueueDeleteOk,
    ExchangeDeclareOk,
    ExchangeBindOk,
    ExchangeUnbindOk,
    ExchangeDeleteOk,
    QosOk,
    RecoverOk,
    SelectOk,
    Get,
    ConsumeOk,
    CancelOk,
    ChannelOpenOk,
    ChannelCloseOk,
}

/// One synchronous request as the client saw it.
pub struct SyncCall<'a> {
    pub want: Want,
    pub rec: Option<&'a OpRec>,
    pub invoke: u64,
    pub ret: u64,
    pub desc: String,
}

/// The synchronous requests each channel issued, in issue order, derived from the
/// history with the same mini-model as `expectations`.
pub fn sync_calls(hist: &History) -> BTreeMap<u16, Vec<SyncCall<'_>>> {
    let mut by_ch: BTreeMap<u16, Vec<SyncCall>> = BTreeMap::new();
    for c in &hist.conn {
        if let ConnRec::KeptClosed { id, invoke, .. } = c {
            by_ch.entry(*id).or_default().push(SyncCall { want: Want::ChannelCloseOk, rec: None, invoke: *invoke, ret: u64::MAX, desc: format!("owner close kept {}", id) });
        }
        if let ConnRec::OpenChannel { result: Ok(id), invoke, ret, for_thread, keep, .. } = c {
            by_ch.entry(*id).or_default().push(SyncCall { want: Want::ChannelOpenOk, rec: None, invoke: *invoke, ret: *ret, desc: format!("open_channel -> {}", id) });
            if *for_thread == 0 && !*keep {
                by_ch.entry(*id).or_default().push(SyncCall { want: Want::ChannelCloseOk, rec: None, invoke: *ret, ret: u64::MAX, desc: format!("owner close {}", id) });
            }
        }
    }
    let mut threads: BTreeMap<usize, Vec<&OpRec>> = BTreeMap::new();
    for o in &hist.ops {
        threads.entry(o.thread).or_default().push(o);
    }
    for (_t, ops) in threads {
        let mut tag_channel: Vec<u16> = Vec::new();
        let mut cancelled: Vec<bool> = Vec::new();
        for o in ops {
            if let Op::Consume { .. } = &o.op {
                if !matches!(o.result, OpResult::Consumer { .. }) {
                    tag_channel.push(o.ch_id);
                    cancelled.push(true);
                }
            }
            if o.result == OpResult::Skipped {
                continue;
            }
            let mut push = |ch: u16, want: Want| {
                by_ch.entry(ch).or_default().push(SyncCall { want, rec: Some(o), invoke: o.invoke, ret: o.ret, desc: format!("t{}#{} {}", o.thread, o.idx, short_op(&o.op)) });
            };
            if o.idx >= 1_000_000 && o.slot == 0 {
                for s in 0..tag_channel.len() {
                    if !cancelled[s] {
                        cancelled[s] = true;
                        push(tag_channel[s], Want::CancelOk);
                    }
                }
            }
            match &o.op {
                Op::QueueDeclare { mode, .. } => {
                    if *mode != Mode::Nowait {
                        push(o.ch_id, Want::QueueDeclareOk)
                    }
                }
                Op::QueueBind { nowait, .. } => {
                    if !*nowait {
                        push(o.ch_id, Want::QueueBindOk)
                    }
                }
                Op::QueueUnbind { .. } => push(o.ch_id, Want::QueueUnbindOk),
                Op::QueuePurge { nowait, .. } => {
                    if !*nowait {
                        push(o.ch_id, Want::QueuePurgeOk)
                    }
                }
                Op::QueueDelete { nowait, .. } => {
                    if !*nowait {
                        push(o.ch_id, Want::QueueDeleteOk)
                    }
                }
                Op::ExchangeDeclare { mode, .. } => {
                    if *mode != Mode::Nowait {
                        push(o.ch_id, Want::ExchangeDeclareOk)
                    }
                }
                Op::ExchangeBind { nowait, .. } => {
                    if !*nowait {
                        push(o.ch_id, Want::ExchangeBindOk)
                    }
                }
                Op::ExchangeUnbind { nowait, .. } => {
                    if !*nowait {
                        push(o.ch_id, Want::ExchangeUnbindOk)
                    }
                }
                Op::ExchangeDelete { nowait, .. } => {
                    if !*nowait {
                        push(o.ch_id, Want::ExchangeDeleteOk)
                    }
                }
                Op::Qos { .. } => push(o.ch_id, Want::QosOk),
                Op::Recover { .. } => push(o.ch_id, Want::RecoverOk),
                Op::ConfirmSelect { nowait } => {
                    if !*nowait {
                        push(o.ch_id, Want::SelectOk)
                    }
                }
                Op::Get { .. } | Op::GetKeep { .. } => push(o.ch_id, Want::Get),
                Op::Consume { .. } => {
                    push(o.ch_id, Want::ConsumeOk);
                    if let OpResult::Consumer { .. } = &o.result {
                        tag_channel.push(o.ch_id);
                        cancelled.push(false);
                    }
                }
                Op::Cancel { slot } | Op::DropConsumer { slot, .. } => {
                    if *slot < tag_channel.len() && !cancelled[*slot] {
                        cancelled[*slot] = true;
                        push(tag_channel[*slot], Want::CancelOk);
                    }
                }
                Op::ForgetConsumer { slot } => {
                    if *slot < cancelled.len() {
                        cancelled[*slot] = true;
                    }
                }
                Op::CloseChannel => push(o.ch_id, Want::ChannelCloseOk),
                _ => {}
            }
        }
    }
    // an id can be opened, closed and opened again by different threads: issue order is time order
    for v in by_ch.values_mut() {
        v.sort_by_key(|c| c.invoke);
    }
    by_ch
}

fn reply_matches(want: &Want, m: &AMQPClass) -> bool {
    matches!(
        (want, m),
        (Want::QueueDeclareOk, AMQPClass::Queue(Q::DeclareOk(_)))
            | (Want::QueueBindOk, AMQPClass::Queue(Q::BindOk(_)))
            | (Want::QueueUnbindOk, AMQPClass::Queue(Q::UnbindOk(_)))
            | (Want::QueuePurgeOk, AMQPClass::Queue(Q::PurgeOk(_)))
            | (Want::QueueDeleteOk, AMQPClass::Queue(Q::DeleteOk(_)))
            | (Want::ExchangeDeclareOk, AMQPClass::Exchange(Ex::DeclareOk(_)))
            | (Want::ExchangeBindOk, AMQPClass::Exchange(Ex::BindOk(_)))
            | (Want::ExchangeUnbindOk, AMQPClass::Exchange(Ex::UnbindOk(_)))
            | (Want::ExchangeDeleteOk, AMQPClass::Exchange(Ex::DeleteOk(_)))
            | (Want::QosOk, AMQPClass::Basic(B::QosOk(_)))
            | (Want::RecoverOk, AMQPClass::Basic(B::RecoverOk(_)))
            | (Want::SelectOk, AMQPClass::Confirm(Cf::SelectOk(_)))
            | (Want::ConsumeOk, AMQPClass::Basic(B::ConsumeOk(_)))
            | (Want::CancelOk, AMQPClass::Basic(B::CancelOk(_)))
            | (Want::ChannelOpenOk, AMQPClass::Channel(Ch::OpenOk(_)))
            | (Want::ChannelCloseOk, AMQPClass::Channel(Ch::CloseOk(_)))
    )
}

/// C04: every synchronous call returned exactly the values of the reply the broker
/// generated for that call on that channel, after that reply was on the wire.
pub fn rpc_oracle(rep: &mut CaseReport, hist: &History, broker: &Broker) {
    rpc_oracle_skip(rep, hist, broker, &[])
}

/// Same, leaving out channels whose calls are expected to fail (closed by the server).
pub fn rpc_oracle_skip(rep: &mut CaseReport, hist: &History, broker: &Broker, skip: &[u16]) {
    let mut calls = sync_calls(hist);
    for s in skip {
        calls.remove(s);
    }
    // broker replies per channel in wire order
    let mut replies: BTreeMap<u16, Vec<&SentRec>> = BTreeMap::new();
    for s in &broker.sent {
        match &s.kind {
            SentKind::Reply { ch, .. } | SentKind::GetOk { ch, .. } | SentKind::GetEmpty { ch, .. } => replies.entry(*ch).or_default().push(s),
            _ => {}
        }
    }
    for (ch, cs) in &calls {
        let rs = replies.remove(ch).unwrap_or_default();
        for (i, c) in cs.iter().enumerate() {
            let failed = matches!(c.rec.map(|r| &r.result), Some(OpResult::Err(_)));
            if failed {
                let r = c.rec.unwrap();
                rep.violate("rpc-error", format!("{:?}", c.want), format!("channel {}: {} returned {:?} although the broker is cooperative", ch, c.desc, r.result));
                return;
            }
            let s = match rs.get(i) {
                Some(s) => *s,
                None => {
                    // a call that returned although the broker never sent its reply
                    if c.ret != u64::MAX {
                        rep.violate("rpc-no-reply", format!("{:?}", c.want), format!("channel {}: call #{} {} returned but the broker sent only {} replies on this channel", ch, i, c.desc, rs.len()));
                        return;
                    }
                    continue;
                }
            };
            rep.count("c04.calls_paired", 1);
            if c.ret != u64::MAX && c.ret < s.stamp {
                rep.violate("rpc-early-return", format!("{:?}", c.want), format!("channel {}: {} returned at step {} before its reply entered the wire at step {}", ch, c.desc, c.ret, s.stamp));
                return;
            }
            let res = c.rec.map(|r| &r.result);
            let ok = match (&s.kind, &c.want) {
                (SentKind::GetEmpty { .. }, Want::Get) => matches!(res, Some(OpResult::Got(None))),
                (SentKind::GetOk { msg, message_count, .. }, Want::Get) => match res {
                    Some(OpResult::Got(Some(g))) => msg_eq(g, msg) && g.message_count == Some(*message_count),
                    _ => false,
                },
                (SentKind::Reply { method, .. }, want) => {
                    if !reply_matches(want, method) {
                        false
                    } else {
                        match (method, res) {
                            (AMQPClass::Queue(Q::DeclareOk(d)), Some(OpResult::Queue { name, message_count, consumer_count })) => {
                                name == &d.queue && *message_count == Some(d.message_count) && *consumer_count == Some(d.consumer_count)
                            }
                            (AMQPClass::Queue(Q::PurgeOk(d)), Some(OpResult::Count(n))) => *n == d.message_count,
                            (AMQPClass::Queue(Q::DeleteOk(d)), Some(OpResult::Count(n))) => *n == d.message_count,
                            (AMQPClass::Basic(B::ConsumeOk(d)), Some(OpResult::Consumer { tag })) => tag == &d.consumer_tag,
                            (AMQPClass::Queue(Q::DeclareOk(_)), _) | (AMQPClass::Queue(Q::PurgeOk(_)), _) | (AMQPClass::Queue(Q::DeleteOk(_)), _) | (AMQPClass::Basic(B::ConsumeOk(_)), _) => false,
                            _ => true,
                        }
                    }
                }
                _ => false,
            };
            if !ok {
                rep.violate(
                    "rpc-wrong-reply",
                    format!("{:?}", c.want),
                    format!("channel {} call #{} {}: returned {} but the broker's reply #{} on this channel was {}", ch, i, c.desc, trunc(&format!("{:?}", res), 200), i, trunc(&format!("{:?}", s.kind), 200)),
                );
                return;
            }
        }
        if rs.len() > cs.len() {
            rep.violate("rpc-surplus-reply", "surplus", format!("channel {}: broker sent {} replies, client made {} synchronous calls", ch, rs.len(), cs.len()));
            return;
        }
    }
    // nowait calls must have returned Ok without any reply: they are in the history as Unit
    for o in &hist.ops {
        if skip.contains(&o.ch_id) {
            continue;
        }
        let nowait = match &o.op {
            Op::QueueDeclare { mode, .. } | Op::ExchangeDeclare { mode, .. } => *mode == Mode::Nowait,
            Op::QueueBind { nowait, .. } | Op::QueuePurge { nowait, .. } | Op::QueueDelete { nowait, .. } | Op::ExchangeBind { nowait, .. } | Op::ExchangeUnbind { nowait, .. } | Op::ExchangeDelete { nowait, .. } | Op::ConfirmSelect { nowait } => *nowait,
            _ => false,
        };
        if nowait {
            rep.count("c04.nowait_calls", 1);
            if let OpResult::Err(e) = &o.result {
                rep.violate("nowait-error", "nowait", format!("nowait call {} failed with {}", short_op(&o.op), e));
                return;
            }
        }
    }
}

/// Decode the client->server stream into per-channel frame lists.
pub fn decode_c2s(c2s: &[u8]) -> Result<BTreeMap<u16, Vec<(usize, usize, AMQPFrame)>>, String> {
    let (_, frames, _) = wire::split_stream(c2s, false).map_err(|e| format!("{:?}", e))?;
    let mut per: BTreeMap<u16, Vec<(usize, usize, AMQPFrame)>> = BTreeMap::new();
    for f in &frames {
        match wire::decode(f) {
            Some(AMQPFrame::Heartbeat(_)) => {}
            Some(fr) => per.entry(f.channel).or_default().push((f.offset, f.bytes.len(), fr)),
            None => return Err(format!("undecodable frame at {}", f.offset)),
        }
    }
    Ok(per)
}

/// C12: every method frame on the wire equals, field by field, the method the
/// expectation table derives from the call's arguments.
pub fn method_oracle(rep: &mut CaseReport, c2s: &[u8], hist: &History, frame_max: usize) {
    let mut per = match decode_c2s(c2s) {
        Ok(p) => p,
        Err(e) => {
            rep.inconclusive = Some(format!("stream not decodable ({}): C01's concern", e));
            return;
        }
    };
    for e in expectations(hist, frame_max) {
        if !e.defined {
            rep.count("c12.channel_expectation_undefined", 1);
            continue;
        }
        let got: Vec<&AMQPClass> = per.get(&e.ch).map(|v| v.iter().filter_map(|(_, _, f)| if let AMQPFrame::Method(_, c) = f { Some(c) } else { None }).collect()).unwrap_or_default();
        let want: Vec<(&AMQPClass, &String)> = e.frames.iter().filter_map(|(f, s)| if let ExpFrame::Method(c) = f { Some((c, s)) } else { None }).collect();
        for i in 0..want.len().max(got.len()) {
            match (want.get(i), got.get(i)) {
                (Some((w, src)), Some(g)) => {
                    rep.count("c12.methods_compared", 1);
                    if w != g {
                        let name = trunc(&format!("{:?}", w), 40);
                        let name = name.split('{').next().unwrap_or("").trim().to_string();
                        rep.violate("method-fields", name, format!("channel {} method #{} from {}: expected {} but the wire carries {}", e.ch, i, src, trunc(&format!("{:?}", w), 400), trunc(&format!("{:?}", g), 400)));
                        return;
                    }
                }
                (Some((w, src)), None) => {
                    rep.violate("method-missing", "missing", format!("channel {}: expected method #{} {} (from {}) never appeared", e.ch, i, trunc(&format!("{:?}", w), 200), src));
                    return;
                }
                (None, Some(g)) => {
                    rep.violate("method-extra", "extra", format!("channel {}: unexpected extra method #{} {}", e.ch, i, trunc(&format!("{:?}", g), 200)));
                    return;
                }
                (None, None) => {}
            }
        }
        per.remove(&e.ch);
    }
}

/// C02: every publish appears as method + one header + body frames, intact, bounded, contiguous, in order.
/// Frames of the longest decodable prefix of the stream, plus the reason decoding stopped (if it did).
pub fn decode_c2s_lenient(c2s: &[u8]) -> (BTreeMap<u16, Vec<(usize, usize, AMQPFrame)>>, Option<String>) {
    let mut per: BTreeMap<u16, Vec<(usize, usize, AMQPFrame)>> = BTreeMap::new();
    let mut end = c2s.len();
    let mut why = None;
    // shrink to the longest prefix that splits into frames
    let frames = loop {
        match wire::split_stream(&c2s[..end], false) {
            Ok((_, frames, _)) => break frames,
            Err(e) => {
                let off = match &e {
                    wire::EnvelopeError::BadType { offset, .. } | wire::EnvelopeError::BadEnd { offset, .. } | wire::EnvelopeError::Trailing { offset, .. } => *offset,
                    _ => 0,
                };
                if why.is_none() {
                    why = Some(format!("{:?}", e));
                }
                if off == 0 || off >= end {
                    break Vec::new();
                }
                end = off;
            }
        }
    };
    for f in &frames {
        match wire::decode(f) {
            Some(AMQPFrame::Heartbeat(_)) => {}
            Some(fr) => per.entry(f.channel).or_default().push((f.offset, f.bytes.len(), fr)),
            None => {
                why = Some(format!("undecodable frame at {}", f.offset));
                break;
            }
        }
    }
    (per, why)
}

pub fn publish_oracle(rep: &mut CaseReport, c2s: &[u8], hist: &History, frame_max: usize) {
    publish_oracle_ext(rep, c2s, hist, frame_max, false)
}

/// `cut_short`: the session provokes the end of the connection while publishes are under way (the client
/// answers a server frame with a connection exception): publishes may then fail, and each channel's frames
/// may simply stop - after a whole publish, or inside the last one - but nothing else may sit inside a publish.
pub fn publish_oracle_ext(rep: &mut CaseReport, c2s: &[u8], hist: &History, frame_max: usize, cut_short: bool) {
    let (per, corrupt) = decode_c2s_lenient(c2s);
    if let Some(why) = corrupt {
        // the stream stops being AMQP at some point (C01's concern as such): it is C02's concern too when a
        // publish that was accepted is not completely on the wire before that point
        let mut inner = CaseReport::default();
        publish_oracle_on(&mut inner, &per, hist, frame_max, true, cut_short);
        match inner.violations.iter().find(|v| v.sig != "io-thread-cancel-ok-inside-publish") {
            Some(v) => rep.violate("publish-stream-corrupt", "undecodable-before-publish-complete", format!("the client->server stream stops being decodable ({}) and before that point: {}", why, v.detail)),
            None => rep.inconclusive = Some(format!("stream not decodable ({}): C01's concern", why)),
        }
        return;
    }
    publish_oracle_on(rep, &per, hist, frame_max, false, cut_short)
}

fn publish_oracle_on(rep: &mut CaseReport, per: &BTreeMap<u16, Vec<(usize, usize, AMQPFrame)>>, hist: &History, frame_max: usize, stream_is_corrupt: bool, cut_short: bool) {
    // publishes per channel in issue order
    let mut pubs: BTreeMap<u16, Vec<&OpRec>> = BTreeMap::new();
    let mut threads: BTreeMap<usize, Vec<&OpRec>> = BTreeMap::new();
    for o in &hist.ops {
        threads.entry(o.thread).or_default().push(o);
    }
    for (_t, ops) in threads {
        for o in ops {
            if let Op::Publish { .. } = &o.op {
                if o.result == OpResult::Unit {
                    pubs.entry(o.ch_id).or_default().push(o);
                } else if o.result != OpResult::Skipped && !stream_is_corrupt && !cut_short {
                    rep.violate("publish-error", "error", format!("publish {} failed: {:?}", short_op(&o.op), o.result));
                    return;
                }
            }
        }
    }
    'channels: for (ch, list) in pubs {
        let frames = per.get(&ch).cloned().unwrap_or_default();
        let mut pos = 0usize;
        for o in list {
            let (exchange, rk, mandatory, immediate, props, body_len) = match &o.op {
                Op::Publish { exchange, rk, mandatory, immediate, props, body_len, .. } => (exchange, rk, *mandatory, *immediate, *props, *body_len),
                _ => unreachable!(),
            };
            let body = make_body(&o.mark, body_len);
            let wprops = make_props(props, &o.mark);
            // find the publish method of this op at or after pos (other ops' frames may precede it)
            let mut found = None;
            for i in pos..frames.len() {
                if let AMQPFrame::Method(_, AMQPClass::Basic(B::Publish(p))) = &frames[i].2 {
                    found = Some((i, p.clone()));
                    break;
                }
            }
            let (i, p) = match found {
                Some(x) => x,
                None if cut_short => {
                    rep.count("c02.cut_short_after_whole_publish", 1);
                    continue 'channels;
                }
                None => {
                    rep.violate("publish-missing", "missing", format!("channel {}: no Basic.Publish frame for {} ({})", ch, o.mark, short_op(&o.op)));
                    return;
                }
            };
            rep.count("c02.publishes_checked", 1);
            if &p.exchange != exchange || &p.routing_key != rk || p.mandatory != mandatory || p.immediate != immediate || p.ticket != 0 {
                let which = if &p.exchange != exchange {
                    "exchange"
                } else if &p.routing_key != rk {
                    "routing_key"
                } else if p.mandatory != mandatory || p.immediate != immediate {
                    "flags"
                } else {
                    "ticket"
                };
                rep.violate("publish-method", which, format!("channel {} publish {}: wire has {:?}, call had exchange={:?} rk={:?} mandatory={} immediate={}", ch, o.mark, p, trunc(exchange, 60), trunc(rk, 60), mandatory, immediate));
                return;
            }
            // header must be the very next frame on this channel.  One interruption was a genuine defect
            // (known_findings.json, fixed in /repo c8b9dfd): the I/O thread's own Basic.CancelOk, answering a
            // server cancel, written between the frames a publish hands over one by one; it keeps its own
            // signature and is skipped, so that everything else about the publish is still checked
            let mut hi = i + 1;
            while let Some((_, _, AMQPFrame::Method(_, AMQPClass::Basic(B::CancelOk(c))))) = frames.get(hi) {
                rep.violate("publish-contiguity", "io-thread-cancel-ok-inside-publish", format!("channel {} publish {}: the client's own Basic.CancelOk({}) (answer to a server cancel) sits between Basic.Publish and its content header", ch, o.mark, c.consumer_tag));
                hi += 1;
            }
            let h = match frames.get(hi) {
                Some((_, _, AMQPFrame::Header(_, class, h))) => {
                    if *class != 60 || h.class_id != 60 {
                        rep.violate("publish-header", "class", format!("channel {} publish {}: header class {}", ch, o.mark, class));
                        return;
                    }
                    h
                }
                None if cut_short => {
                    rep.count("c02.cut_short_inside_publish", 1);
                    continue 'channels;
                }
                other => {
                    rep.violate("publish-contiguity", "no-header", format!("channel {} publish {}: frame after Basic.Publish is {}", ch, o.mark, trunc(&format!("{:?}", other.map(|x| &x.2)), 120)));
                    return;
                }
            };
            if h.body_size != body.len() as u64 {
                rep.violate("publish-header", "body_size", format!("channel {} publish {}: header announces {} bytes, body has {}", ch, o.mark, h.body_size, body.len()));
                return;
            }
            if h.properties != wprops {
                rep.violate("publish-header", "properties", format!("channel {} publish {}: properties differ: wire {:?} vs call {:?}", ch, o.mark, h.properties, wprops));
                return;
            }
            let mut got = Vec::new();
            let mut j = hi + 1;
            let mut n_body = 0;
            while got.len() < body.len() {
                match frames.get(j) {
                    Some((_, _, AMQPFrame::Method(_, AMQPClass::Basic(B::CancelOk(c))))) => {
                        rep.violate("publish-contiguity", "io-thread-cancel-ok-inside-publish", format!("channel {} publish {}: the client's own Basic.CancelOk({}) (answer to a server cancel) sits inside the content, after {} of {} body bytes", ch, o.mark, c.consumer_tag, got.len(), body.len()));
                        j += 1;
                    }
                    Some((_, flen, AMQPFrame::Body(_, b))) => {
                        if *flen > frame_max {
                            rep.violate("publish-frame-size", "too-long", format!("channel {} publish {} (body {} bytes): body frame of {} bytes exceeds frame_max {}", ch, o.mark, body.len(), flen, frame_max));
                            return;
                        }
                        got.extend_from_slice(b);
                        n_body += 1;
                        j += 1;
                    }
                    None if cut_short => {
                        rep.count("c02.cut_short_inside_publish", 1);
                        continue 'channels;
                    }
                    other => {
                        rep.violate("publish-contiguity", "body-interrupted", format!("channel {} publish {}: after {} of {} body bytes the next frame is {}", ch, o.mark, got.len(), body.len(), trunc(&format!("{:?}", other.map(|x| &x.2)), 120)));
                        return;
                    }
                }
            }
            if got != body {
                let at = got.iter().zip(body.iter()).position(|(a, b)| a != b).unwrap_or(got.len().min(body.len()));
                rep.violate("publish-body", "content", format!("channel {} publish {}: body differs at byte {} (wire {} bytes, call {} bytes)", ch, o.mark, at, got.len(), body.len()));
                return;
            }
            // no stray body frame after the announced size
            if let Some((_, _, AMQPFrame::Body(_, b))) = frames.get(j) {
                rep.violate("publish-body", "surplus-frame", format!("channel {} publish {}: extra body frame of {} bytes after the complete body", ch, o.mark, b.len()));
                return;
            }
            if body.is_empty() && n_body != 0 {
                rep.violate("publish-body", "frame-for-empty", format!("channel {} publish {}: empty body but {} body frames", ch, o.mark, n_body));
                return;
            }
            if body.len() + 8 > frame_max || body.len() % (frame_max - 8) == 0 || body.is_empty() || body.len() == 1 {
                rep.count("c02.boundary_bodies", 1);
            }
            if n_body >= 2 {
                rep.count("c02.multi_frame_bodies", 1);
            }
            pos = j;
        }
    }
}

/// C03: inbound content reaches its addressee exactly once, intact, in order.
pub fn inbound_oracle(rep: &mut CaseReport, hist: &History, broker: &Broker) {
    inbound_oracle_skip(rep, hist, broker, &[])
}

pub fn inbound_oracle_skip(rep: &mut CaseReport, hist: &History, broker: &Broker, skip: &[u16]) {
    // consumers: (thread, slot) -> tag, channel; drained results
    let mut threads: BTreeMap<usize, Vec<&OpRec>> = BTreeMap::new();
    for o in &hist.ops {
        threads.entry(o.thread).or_default().push(o);
    }
    // what the broker sent per (ch, tag) in wire order, and the terminal position
    let mut sent_per: BTreeMap<(u16, String), Vec<&Message>> = BTreeMap::new();
    for s in &broker.sent {
        if let SentKind::Deliver { ch, tag, msg } = &s.kind {
            sent_per.entry((*ch, tag.clone())).or_default().push(msg);
        }
    }
    for (_t, ops) in &threads {
        let mut tags: Vec<(u16, String)> = Vec::new();
        for o in ops {
            if let Op::Consume { .. } = &o.op {
                match &o.result {
                    OpResult::Consumer { tag } => tags.push((o.ch_id, tag.clone())),
                    _ => tags.push((o.ch_id, String::new())),
                }
            }
            if let (Op::Drain { slot, max: None, .. }, OpResult::Drained { msgs, disconnected, .. }) = (&o.op, &o.result) {
                if *slot >= tags.len() || !*disconnected {
                    continue;
                }
                let key = tags[*slot].clone();
                if skip.contains(&key.0) || key.1.is_empty() {
                    continue;
                }
                let sent = sent_per.get(&key).cloned().unwrap_or_default();
                rep.count("c03.consumers_checked", 1);
                rep.count("c03.deliveries_compared", sent.len() as u64);
                if msgs.len() != sent.len() {
                    let kind = if msgs.len() < sent.len() { "lost" } else { "extra" };
                    rep.violate("delivery-count", kind, format!("consumer {} on channel {}: broker sent {} deliveries before the consumer ended, consumer received {}", key.1, key.0, sent.len(), msgs.len()));
                    return;
                }
                for (i, (g, m)) in msgs.iter().zip(sent.iter()).enumerate() {
                    if !msg_eq(g, m) {
                        let what = if g.body != m.body {
                            "body"
                        } else if g.properties != m.properties {
                            "properties"
                        } else if g.delivery_tag != m.delivery_tag {
                            "order-or-tag"
                        } else {
                            "metadata"
                        };
                        rep.violate("delivery-content", what, format!("consumer {} on channel {} delivery #{}: received tag {} rk {:?} body {} bytes; sent tag {} rk {:?} body {} bytes", key.1, key.0, i, g.delivery_tag, g.routing_key, g.body.len(), m.delivery_tag, m.routing_key, m.body.len()));
                        return;
                    }
                }
            }
        }
    }
    // gets are covered by the reply pairing of rpc_oracle's Get arm: repeat the content part here
    let calls = sync_calls(hist);
    let mut replies: BTreeMap<u16, Vec<&SentRec>> = BTreeMap::new();
    for s in &broker.sent {
        match &s.kind {
            SentKind::Reply { ch, .. } | SentKind::GetOk { ch, .. } | SentKind::GetEmpty { ch, .. } => replies.entry(*ch).or_default().push(s),
            _ => {}
        }
    }
    for (ch, cs) in &calls {
        if skip.contains(ch) {
            continue;
        }
        let rs = replies.get(ch).cloned().unwrap_or_default();
        for (i, c) in cs.iter().enumerate() {
            if c.want != Want::Get {
                continue;
            }
            let res = c.rec.map(|r| &r.result);
            match (rs.get(i).map(|s| &s.kind), res) {
                (Some(SentKind::GetOk { msg, message_count, .. }), Some(OpResult::Got(Some(g)))) => {
                    rep.count("c03.gets_compared", 1);
                    if !msg_eq(g, msg) || g.message_count != Some(*message_count) {
                        rep.violate("get-content", "content", format!("channel {} get {}: returned tag {} body {} bytes count {:?}; broker sent tag {} body {} bytes count {}", ch, c.desc, g.delivery_tag, g.body.len(), g.message_count, msg.delivery_tag, msg.body.len(), message_count));
                        return;
                    }
                }
                (Some(SentKind::GetEmpty { .. }), Some(OpResult::Got(None))) => rep.count("c03.gets_compared", 1),
                (Some(k), Some(r)) => {
                    if !matches!(r, OpResult::Err(_)) {
                        rep.violate("get-content", "kind", format!("channel {} get {}: returned {} for broker answer {}", ch, c.desc, trunc(&format!("{:?}", r), 120), trunc(&format!("{:?}", k), 120)));
                        return;
                    }
                }
                _ => {}
            }
        }
    }
}

/// Index into `broker.sent` of the reply to the last synchronous call that channel
/// `ch` completed at or before op `before` of thread `thread`: everything the broker put
/// on the wire before that reply has been processed by the I/O thread when the call returns.
pub fn barrier_index(hist: &History, broker: &Broker, thread: usize, ch: u16, before_idx: usize) -> Option<usize> {
    let calls = sync_calls(hist);
    let cs = calls.get(&ch)?;
    let mut pos = None;
    for (i, c) in cs.iter().enumerate() {
        if let Some(r) = c.rec {
            if r.thread == thread && r.idx < before_idx && !matches!(r.result, OpResult::Err(_)) {
                pos = Some(i);
            }
        }
    }
    let pos = pos?;
    let mut n = 0;
    for (i, s) in broker.sent.iter().enumerate() {
        let c = match &s.kind {
            SentKind::Reply { ch, .. } | SentKind::GetOk { ch, .. } | SentKind::GetEmpty { ch, .. } => *ch,
            _ => continue,
        };
        if c == ch {
            if n == pos {
                return Some(i);
            }
            n += 1;
        }
    }
    None
}

/// Returned messages vs what the return listener of each channel collected.  Only
/// for channels whose listener was registered before their first publish and never
/// replaced.  Returns the broker put on the wire before the reply of the last round
/// trip preceding the final read must be there; later ones may be.
pub fn returns_oracle(rep: &mut CaseReport, hist: &History, broker: &Broker) {
    let mut sent: BTreeMap<u16, Vec<(usize, &u16, &String, &Message)>> = BTreeMap::new();
    for (i, s) in broker.sent.iter().enumerate() {
        if let SentKind::Return { ch, code, text, msg } = &s.kind {
            sent.entry(*ch).or_default().push((i, code, text, msg));
        }
    }
    let mut threads: BTreeMap<usize, Vec<&OpRec>> = BTreeMap::new();
    for o in &hist.ops {
        threads.entry(o.thread).or_default().push(o);
    }
    for (t, ops) in threads {
        struct St<'a> {
            from_start: bool,
            published: bool,
            got: Vec<&'a ReturnMsg>,
            last_read_idx: Option<usize>,
        }
        let mut state: BTreeMap<u16, St> = BTreeMap::new();
        for o in ops {
            let st = state.entry(o.ch_id).or_insert(St { from_start: false, published: false, got: Vec::new(), last_read_idx: None });
            match (&o.op, &o.result) {
                (Op::ListenReturns, OpResult::Unit) => {
                    st.from_start = !st.published && st.got.is_empty() && st.last_read_idx.is_none();
                }
                (Op::ListenReturns, _) | (Op::DropReturns, _) => st.from_start = false,
                (Op::Publish { .. }, _) => st.published = true,
                (Op::ReadReturns, OpResult::Returns(v, _)) => {
                    st.got.extend(v.iter());
                    st.last_read_idx = Some(o.idx);
                }
                _ => {}
            }
        }
        for (ch, st) in state {
            let last = match st.last_read_idx {
                Some(l) if st.from_start => l,
                _ => continue,
            };
            let want = sent.get(&ch).cloned().unwrap_or_default();
            let barrier = barrier_index(hist, broker, t, ch, last);
            let must = match barrier {
                Some(b) => want.iter().filter(|(i, ..)| *i < b).count(),
                None => 0,
            };
            rep.count("c03.return_listeners_checked", 1);
            rep.count("c03.returns_compared", st.got.len() as u64);
            if st.got.len() < must || st.got.len() > want.len() {
                rep.violate(
                    "return-count",
                    if st.got.len() < must { "lost" } else { "extra" },
                    format!("channel {}: broker returned {} messages ({} of them before the reply of the last round trip), listener registered before the first publish has {}", ch, want.len(), must, st.got.len()),
                );
                return;
            }
            for (i, (g, (_, code, text, m))) in st.got.iter().zip(want.iter()).enumerate() {
                if g.reply_code != **code || &g.reply_text != *text || g.exchange != m.exchange || g.routing_key != m.routing_key || g.properties != m.properties || g.body != m.body {
                    rep.violate("return-content", "content", format!("channel {} return #{}: listener got code {} text {:?} body {} bytes; broker sent code {} text {:?} body {} bytes", ch, i, g.reply_code, g.reply_text, g.body.len(), code, text, m.body.len()));
                    return;
                }
            }
        }
    }
}
