//! Client side of a simulated session: operations over amiquip's public API,
//! generated up-front as data, interpreted on simulator threads, every call
//! logged with invoke/return stamps.
use amiquip::{
    AmqpProperties, AmqpValue, Channel, Confirm, ConnectionBlockedNotification, Consumer, ConsumerMessage,
    ConsumerOptions, Delivery, Exchange, ExchangeDeclareOptions, ExchangeType, FieldTable, Publish,
    QueueDeclareOptions, QueueDeleteOptions, Return,
};
use amiquip_simrt as simrt;
use crossbeam_channel::{Receiver, TryRecvError};
use std::sync::{Arc, Mutex};

#[derive(Clone, Debug, PartialEq)]
pub enum Mode {
    Sync,
    Nowait,
    Passive,
    /// queues only: declare synchronously, then purge (nowait) through the handle that was returned, so
    /// that the name in the handle (the server's, for an empty requested name) reaches the wire
    SyncThenUse,
}

#[derive(Clone, Debug, PartialEq)]
pub enum AckKind {
    None,
    Ack,
    AckMultiple,
    Nack(bool),
    NackMultiple(bool),
    Reject(bool),
}

#[derive(Clone, Debug, PartialEq)]
pub enum ExType {
    Direct,
    Fanout,
    Topic,
    Headers,
    Custom(String),
}

impl ExType {
    pub fn to_amiquip(&self) -> ExchangeType {
        match self {
            ExType::Direct => ExchangeType::Direct,
            ExType::Fanout => ExchangeType::Fanout,
            ExType::Topic => ExchangeType::Topic,
            ExType::Headers => ExchangeType::Headers,
            ExType::Custom(s) => ExchangeType::Custom(s.clone()),
        }
    }
    pub fn name(&self) -> String {
        match self {
            ExType::Direct => "direct".into(),
            ExType::Fanout => "fanout".into(),
            ExType::Topic => "topic".into(),
            ExType::Headers => "headers".into(),
            ExType::Custom(s) => s.clone(),
        }
    }
}

/// Arguments are plain data so that a program can be printed and compared.
#[derive(Clone, Debug, PartialEq)]
pub enum Op {
    QueueDeclare { name: String, durable: bool, exclusive: bool, auto_delete: bool, args: u32, mode: Mode },
    QueueBind { queue: String, exchange: String, rk: String, args: u32, nowait: bool, via_queue: bool },
    QueueUnbind { queue: String, exchange: String, rk: String, args: u32, via_queue: bool },
    QueuePurge { queue: String, nowait: bool, via_queue: bool },
    QueueDelete { queue: String, if_unused: bool, if_empty: bool, nowait: bool, via_queue: bool },
    ExchangeDeclare { ty: ExType, name: String, durable: bool, auto_delete: bool, internal: bool, args: u32, mode: Mode },
    /// via: 0 = Channel::exchange_bind, 1 = dest.bind_to_source(src), 2 = src.bind_to_destination(dest)
    ExchangeBind { dest: String, src: String, rk: String, args: u32, nowait: bool, via: u8 },
    ExchangeUnbind { dest: String, src: String, rk: String, args: u32, nowait: bool, via: u8 },
    ExchangeDelete { name: String, if_unused: bool, nowait: bool, via_exchange: bool },
    Qos { size: u32, count: u16, global: bool },
    Recover { requeue: bool },
    ConfirmSelect { nowait: bool },
    Publish { exchange: String, rk: String, mandatory: bool, immediate: bool, props: u32, body_len: usize, via_exchange: bool },
    Get { queue: String, no_ack: bool, then: AckKind, via_queue: bool, via_get: bool },
    Consume { queue: String, no_local: bool, no_ack: bool, exclusive: bool, args: u32, via_queue: bool },
    /// receive until the terminal message and disconnect (or `max` messages), acking per policy
    Drain { slot: usize, max: Option<usize>, acks: Vec<AckKind>, via_consumer: bool },
    Cancel { slot: usize },
    /// `whole`: also give up the harness's own clone of the receiver first, so that the Consumer's drop
    /// really disconnects the queue (what an application that drops the Consumer experiences)
    DropConsumer { slot: usize, whole: bool },
    /// mem::forget the consumer (keeps its receiver) so the channel can be closed under it
    ForgetConsumer { slot: usize },
    ListenReturns,
    ListenConfirms,
    /// drop the current return / confirm listener receiver
    DropReturns,
    DropConfirms,
    /// read whatever the listener has right now (after a round trip everything sent before is there)
    ReadReturns,
    ReadConfirms,
    /// read the receivers of listeners that were replaced (kept by the harness to see them disconnect)
    ReadOld,
    AckAll,
    NackAll { requeue: bool },
    /// ack a kept delivery through another channel of the same thread: must panic
    ForeignAck { kind: AckKind, other_slot: usize },
    /// the same through a Consumer that lives on another channel than the delivery
    ForeignAckViaConsumer { kind: AckKind, consumer_slot: usize },
    /// get a message and keep its delivery (unacknowledged) for a later foreign ack
    GetKeep { queue: String },
    CloseChannel,
    Yield,
    /// wait until the controller opens this gate
    Gate(u64),
}

#[derive(Clone, Debug, PartialEq)]
pub struct GotMsg {
    pub delivery_tag: u64,
    pub redelivered: bool,
    pub exchange: String,
    pub routing_key: String,
    pub properties: AmqpProperties,
    pub body: Vec<u8>,
    pub message_count: Option<u32>,
    /// simulated time at which the client thread obtained it
    pub recv_ns: u64,
}

impl GotMsg {
    pub fn from_delivery(d: &Delivery, mc: Option<u32>) -> GotMsg {
        GotMsg {
            delivery_tag: d.delivery_tag(),
            redelivered: d.redelivered,
            exchange: d.exchange.clone(),
            routing_key: d.routing_key.clone(),
            properties: d.properties.clone(),
            body: d.body.clone(),
            message_count: mc,
            recv_ns: simrt::now_ns(),
        }
    }
}

#[derive(Clone, Debug, PartialEq)]
pub enum Terminal {
    ClientCancelled,
    ServerCancelled,
    ClientClosedChannel,
    ServerClosedChannel(String),
    ClientClosedConnection,
    ServerClosedConnection(String),
}

#[derive(Clone, Debug, PartialEq)]
pub enum OpResult {
    Unit,
    Err(String),
    Queue { name: String, message_count: Option<u32>, consumer_count: Option<u32> },
    Count(u32),
    Got(Option<GotMsg>),
    Consumer { tag: String },
    Drained { msgs: Vec<GotMsg>, terminals: Vec<Terminal>, disconnected: bool, after_terminal: usize },
    Returns(Vec<ReturnMsg>, bool),
    Confirms(Vec<(bool, u64, bool)>, bool),
    Blocked(Vec<Option<String>>, bool),
    /// per replaced listener, in order of replacement: (items, disconnected)
    OldListeners { confirms: Vec<(Vec<(bool, u64, bool)>, bool)>, returns: Vec<(Vec<ReturnMsg>, bool)> },
    ChannelId(u16),
    Panicked(String),
    Skipped,
}

#[derive(Clone, Debug, PartialEq)]
pub struct ReturnMsg {
    pub reply_code: u16,
    pub reply_text: String,
    pub exchange: String,
    pub routing_key: String,
    pub properties: AmqpProperties,
    pub body: Vec<u8>,
}

#[derive(Clone, Debug)]
pub struct OpRec {
    pub thread: usize,
    pub slot: usize,
    pub ch_id: u16,
    pub idx: usize,
    pub op: Op,
    pub mark: String,
    pub invoke: u64,
    pub ret: u64,
    pub invoke_ns: u64,
    pub ret_ns: u64,
    pub result: OpResult,
}

#[derive(Clone, Debug)]
pub enum ConnRec {
    Open { invoke: u64, ret: u64, result: Result<(), String>, server_properties: Option<FieldTable> },
    OpenChannel { requested: Option<u16>, invoke: u64, ret: u64, result: Result<u16, String>, for_thread: usize, slot: usize, keep: bool },
    /// the owner closed a channel it had kept (client-side close: a Channel.Close frame is written)
    KeptClosed { id: u16, invoke: u64, result: Result<(), String> },
    ListenBlocked { invoke: u64, ret: u64, result: Result<(), String> },
    ReadBlocked { notes: Vec<Option<String>>, disconnected: bool },
    Close { invoke: u64, ret: u64, invoke_ns: u64, ret_ns: u64, result: Result<(), String>, by_drop: bool },
}

#[derive(Default)]
pub struct History {
    pub ops: Vec<OpRec>,
    pub conn: Vec<ConnRec>,
    pub notes: Vec<String>,
}

pub type Hist = Arc<Mutex<History>>;

pub fn err_string(e: &amiquip::Error) -> String {
    use amiquip::Error as E;
    match e {
        E::ServerClosedConnection { code, message } => format!("ServerClosedConnection({},{})", code, message),
        E::ServerClosedChannel { channel_id, code, message } => format!("ServerClosedChannel({},{},{})", channel_id, code, message),
        E::UnavailableChannelId { channel_id } => format!("UnavailableChannelId({})", channel_id),
        E::IoErrorReadingSocket { .. } => "IoErrorReadingSocket".to_string(),
        E::IoErrorWritingSocket { .. } => "IoErrorWritingSocket".to_string(),
        E::FrameMaxTooSmall { min, requested } => format!("FrameMaxTooSmall({},{})", min, requested),
        E::UnsupportedAuthMechanism { available, requested } => format!("UnsupportedAuthMechanism({};{})", available, requested),
        E::UnsupportedLocale { available, requested } => format!("UnsupportedLocale({};{})", available, requested),
        E::ReceivedFrameWithBogusChannelId { channel_id } => format!("ReceivedFrameWithBogusChannelId({})", channel_id),
        E::UnknownConsumerTag { channel_id, consumer_tag } => format!("UnknownConsumerTag({},{})", channel_id, consumer_tag),
        E::DuplicateConsumerTag { channel_id, consumer_tag } => format!("DuplicateConsumerTag({},{})", channel_id, consumer_tag),
        E::FailedToPoll { .. } => "FailedToPoll".to_string(),
        other => {
            let s = format!("{:?}", other);
            s.split(|c: char| !c.is_alphanumeric()).next().unwrap_or("").to_string()
        }
    }
}

/// The 14 basic properties, from a small spec number and a unique mark.
pub fn make_props(spec: u32, mark: &str) -> AmqpProperties {
    let mut p = AmqpProperties::default();
    match spec % 5 {
        0 => {}
        1 => {
            p = p.with_message_id(format!("m-{}", mark));
        }
        2 => {
            p = p.with_content_type("text/plain".to_string()).with_delivery_mode(2).with_correlation_id(format!("c-{}", mark));
        }
        3 => {
            p = p
                .with_content_type("application/octet-stream".to_string())
                .with_content_encoding("gzip".to_string())
                .with_headers(make_table(3, mark))
                .with_delivery_mode(1)
                .with_priority(9)
                .with_correlation_id(format!("corr-{}", mark))
                .with_reply_to(format!("reply-{}", mark))
                .with_expiration("60000".to_string())
                .with_message_id(format!("mid-{}", mark))
                .with_timestamp(1_600_000_000 + spec as u64)
                .with_type_("type".to_string())
                .with_user_id("guest".to_string())
                .with_app_id("simapp".to_string())
                .with_cluster_id("cl".to_string());
        }
        _ => {
            p = p.with_headers(make_table(4, mark)).with_priority(0).with_timestamp(0);
        }
    }
    p
}

pub fn make_table(spec: u32, mark: &str) -> FieldTable {
    let mut t = FieldTable::new();
    match spec % 5 {
        0 => {}
        1 => {
            t.insert("x-mark".to_string(), AmqpValue::LongString(mark.to_string()));
        }
        2 => {
            t.insert("x-message-ttl".to_string(), AmqpValue::LongInt(60000));
            t.insert("x-flag".to_string(), AmqpValue::Boolean(true));
        }
        3 => {
            t.insert("x-mark".to_string(), AmqpValue::LongString(mark.to_string()));
            t.insert("i8".to_string(), AmqpValue::ShortShortInt(-8));
            t.insert("u8".to_string(), AmqpValue::ShortShortUInt(8));
            t.insert("i16".to_string(), AmqpValue::ShortInt(-16));
            t.insert("u16".to_string(), AmqpValue::ShortUInt(16));
            t.insert("u32".to_string(), AmqpValue::LongUInt(32));
            t.insert("i64".to_string(), AmqpValue::LongLongInt(-64));
            t.insert("f".to_string(), AmqpValue::Float(1.5));
            t.insert("d".to_string(), AmqpValue::Double(-2.25));
            t.insert("ts".to_string(), AmqpValue::Timestamp(123456789));
            t.insert("void".to_string(), AmqpValue::Void);
            t.insert("bytes".to_string(), AmqpValue::ByteArray(vec![0, 1, 2, 0xCE, 255]));
        }
        _ => {
            let mut inner = FieldTable::new();
            inner.insert("deep".to_string(), AmqpValue::LongString(format!("{}-deep", mark)));
            let mut inner2 = FieldTable::new();
            inner2.insert("deeper".to_string(), AmqpValue::FieldArray(vec![AmqpValue::LongInt(1), AmqpValue::LongString("two".into()), AmqpValue::Boolean(false)]));
            inner.insert("t2".to_string(), AmqpValue::FieldTable(inner2));
            t.insert("nested".to_string(), AmqpValue::FieldTable(inner));
            t.insert("arr".to_string(), AmqpValue::FieldArray(vec![AmqpValue::LongLongInt(7), AmqpValue::Void]));
        }
    }
    t
}

/// Body of a publish: position-dependent, unique per mark, so loss, duplication and
/// reordering of any byte range are visible.
pub fn make_body(mark: &str, len: usize) -> Vec<u8> {
    let m = mark.as_bytes();
    let mut v = Vec::with_capacity(len);
    let mut x: u32 = 0x9e3779b9 ^ (len as u32);
    for b in m {
        x = x.wrapping_mul(31).wrapping_add(*b as u32);
    }
    for i in 0..len {
        if i < m.len() {
            v.push(m[i]);
        } else {
            x ^= x << 13;
            x ^= x >> 17;
            x ^= x << 5;
            v.push((x & 0xff) as u8);
        }
    }
    v
}

pub struct ConsumerSlot {
    pub chan_slot: usize,
    pub tag: String,
    pub consumer: Option<Consumer<'static>>,
    pub rx: Receiver<ConsumerMessage>,
    pub kept: Vec<Delivery>,
}

pub struct ChanCtx {
    pub ptr: *mut Channel,
    pub id: u16,
    pub closed: bool,
    pub returns: Option<Receiver<Return>>,
    pub confirms: Option<Receiver<Confirm>>,
    pub old_returns: Vec<Receiver<Return>>,
    pub old_confirms: Vec<Receiver<Confirm>>,
    pub kept: Vec<Delivery>,
}

unsafe impl Send for ChanCtx {}

impl ChanCtx {
    pub fn new(ch: Channel) -> ChanCtx {
        let id = ch.channel_id();
        ChanCtx { ptr: Box::into_raw(Box::new(ch)), id, closed: false, returns: None, confirms: None, old_returns: Vec::new(), old_confirms: Vec::new(), kept: Vec::new() }
    }
    pub fn chan(&self) -> &'static Channel {
        unsafe { &*self.ptr }
    }
    /// consume the channel (close or drop).  Consumers borrowing it must be gone or forgotten.
    pub fn take(&mut self) -> Option<Channel> {
        if self.closed {
            return None;
        }
        self.closed = true;
        Some(*unsafe { Box::from_raw(self.ptr) })
    }
}

pub struct WorkerCtx {
    pub thread: usize,
    pub chans: Vec<ChanCtx>,
    pub consumers: Vec<ConsumerSlot>,
    pub hist: Hist,
}

fn ack_delivery(kind: &AckKind, d: Delivery, ch: &Channel) -> amiquip::Result<()> {
    match kind {
        AckKind::None => Ok(()),
        AckKind::Ack => d.ack(ch),
        AckKind::AckMultiple => d.ack_multiple(ch),
        AckKind::Nack(r) => d.nack(ch, *r),
        AckKind::NackMultiple(r) => d.nack_multiple(ch, *r),
        AckKind::Reject(r) => d.reject(ch, *r),
    }
}

fn ack_via_consumer(kind: &AckKind, d: Delivery, c: &Consumer) -> amiquip::Result<()> {
    match kind {
        AckKind::None => Ok(()),
        AckKind::Ack => c.ack(d),
        AckKind::AckMultiple => c.ack_multiple(d),
        AckKind::Nack(r) => c.nack(d, *r),
        AckKind::NackMultiple(r) => c.nack_multiple(d, *r),
        AckKind::Reject(r) => c.reject(d, *r),
    }
}

fn unit(r: amiquip::Result<()>) -> OpResult {
    match r {
        Ok(()) => OpResult::Unit,
        Err(e) => OpResult::Err(err_string(&e)),
    }
}

pub fn terminal_of(m: &ConsumerMessage) -> Option<Terminal> {
    match m {
        ConsumerMessage::Delivery(_) => None,
        ConsumerMessage::ClientCancelled => Some(Terminal::ClientCancelled),
        ConsumerMessage::ServerCancelled => Some(Terminal::ServerCancelled),
        ConsumerMessage::ClientClosedChannel => Some(Terminal::ClientClosedChannel),
        ConsumerMessage::ServerClosedChannel(e) => Some(Terminal::ServerClosedChannel(err_string(e))),
        ConsumerMessage::ClientClosedConnection => Some(Terminal::ClientClosedConnection),
        ConsumerMessage::ServerClosedConnection(e) => Some(Terminal::ServerClosedConnection(err_string(e))),
    }
}

/// Receive from a consumer queue until it disconnects (or `max` items arrived).
pub fn drain_receiver(
    rx: &Receiver<ConsumerMessage>,
    max: Option<usize>,
    mut on_delivery: impl FnMut(Delivery, usize),
) -> (Vec<GotMsg>, Vec<Terminal>, bool, usize) {
    let mut msgs = Vec::new();
    let mut terminals = Vec::new();
    let mut after_terminal = 0;
    let mut disconnected = false;
    let mut n = 0;
    loop {
        if let Some(m) = max {
            if n >= m {
                break;
            }
        }
        match rx.recv() {
            Ok(m) => {
                n += 1;
                if !terminals.is_empty() {
                    after_terminal += 1;
                }
                match terminal_of(&m) {
                    Some(t) => terminals.push(t),
                    None => {
                        if let ConsumerMessage::Delivery(d) = m {
                            msgs.push(GotMsg::from_delivery(&d, None));
                            on_delivery(d, msgs.len() - 1);
                        }
                    }
                }
            }
            Err(_) => {
                disconnected = true;
                break;
            }
        }
    }
    (msgs, terminals, disconnected, after_terminal)
}

impl WorkerCtx {
    /// For queue operations through handles: every other such operation takes the Exchange handle from the
    /// thread's next channel (the method must still go out on the Queue handle's channel); a note tells the
    /// wire oracle where the handle's declare went.
    fn other_channel_for_handle(&mut self, slot: usize, idx: usize, ch: &'static Channel) -> &'static Channel {
        let o = (slot + 1) % self.chans.len();
        if idx % 2 == 1 && o != slot && !self.chans[o].ptr.is_null() && !self.chans[o].closed {
            self.hist.lock().unwrap().notes.push(format!("qvia-other t{} idx{} ch{}", self.thread, idx, self.chans[o].id));
            self.chans[o].chan()
        } else {
            ch
        }
    }

    pub fn exec(&mut self, slot: usize, idx: usize, op: &Op, mark: &str) -> OpResult {
        if self.chans[slot].closed {
            // only draining a consumer queue makes sense without the channel
            match op {
                Op::Drain { slot: cs, max, .. } if *cs < self.consumers.len() && !self.chans[slot].ptr.is_null() => {
                    let rx = self.consumers[*cs].rx.clone();
                    let (msgs, terminals, disconnected, after_terminal) = drain_receiver(&rx, *max, |_, _| {});
                    return OpResult::Drained { msgs, terminals, disconnected, after_terminal };
                }
                Op::Consume { .. } => {
                    // keep consumer slots aligned with the plan
                    let (_tx, rx) = crossbeam_channel::unbounded();
                    self.consumers.push(ConsumerSlot { chan_slot: slot, tag: String::new(), consumer: None, rx, kept: Vec::new() });
                    return OpResult::Skipped;
                }
                _ => return OpResult::Skipped,
            }
        }
        let ch: &'static Channel = self.chans[slot].chan();
        match op {
            Op::QueueDeclare { name, durable, exclusive, auto_delete, args, mode } => {
                let opts = QueueDeclareOptions { durable: *durable, exclusive: *exclusive, auto_delete: *auto_delete, arguments: make_table(*args, mark) };
                let r = match mode {
                    Mode::Sync => ch.queue_declare(name.clone(), opts),
                    Mode::Nowait => ch.queue_declare_nowait(name.clone(), opts),
                    Mode::Passive => ch.queue_declare_passive(name.clone()),
                    Mode::SyncThenUse => ch.queue_declare(name.clone(), opts).and_then(|q| q.purge_nowait().map(|_| q)),
                };
                match r {
                    Ok(q) => OpResult::Queue { name: q.name().to_string(), message_count: q.declared_message_count(), consumer_count: q.declared_consumer_count() },
                    Err(e) => OpResult::Err(err_string(&e)),
                }
            }
            Op::QueueBind { queue, exchange, rk, args, nowait, via_queue } => {
                let t = make_table(*args, mark);
                if *via_queue {
                    // Queue / Exchange handles without a round trip: nowait declare gives a handle,
                    // but would emit a frame; build them through the passive-free constructors instead
                    let q = match ch.queue_declare_nowait(queue.clone(), QueueDeclareOptions::default()) {
                        Ok(q) => q,
                        Err(e) => return OpResult::Err(err_string(&e)),
                    };
                    let ex = match self.other_channel_for_handle(slot, idx, ch).exchange_declare_nowait(ExchangeType::Direct, exchange.clone(), ExchangeDeclareOptions::default()) {
                        Ok(x) => x,
                        Err(e) => return OpResult::Err(err_string(&e)),
                    };
                    unit(if *nowait { q.bind_nowait(&ex, rk.clone(), t) } else { q.bind(&ex, rk.clone(), t) })
                } else if *nowait {
                    unit(ch.queue_bind_nowait(queue.clone(), exchange.clone(), rk.clone(), t))
                } else {
                    unit(ch.queue_bind(queue.clone(), exchange.clone(), rk.clone(), t))
                }
            }
            Op::QueueUnbind { queue, exchange, rk, args, via_queue } => {
                let t = make_table(*args, mark);
                if *via_queue {
                    let q = match ch.queue_declare_nowait(queue.clone(), QueueDeclareOptions::default()) {
                        Ok(q) => q,
                        Err(e) => return OpResult::Err(err_string(&e)),
                    };
                    let ex = match self.other_channel_for_handle(slot, idx, ch).exchange_declare_nowait(ExchangeType::Direct, exchange.clone(), ExchangeDeclareOptions::default()) {
                        Ok(x) => x,
                        Err(e) => return OpResult::Err(err_string(&e)),
                    };
                    unit(q.unbind(&ex, rk.clone(), t))
                } else {
                    unit(ch.queue_unbind(queue.clone(), exchange.clone(), rk.clone(), t))
                }
            }
            Op::QueuePurge { queue, nowait, via_queue } => {
                if *via_queue {
                    let q = match ch.queue_declare_nowait(queue.clone(), QueueDeclareOptions::default()) {
                        Ok(q) => q,
                        Err(e) => return OpResult::Err(err_string(&e)),
                    };
                    if *nowait {
                        unit(q.purge_nowait())
                    } else {
                        match q.purge() {
                            Ok(n) => OpResult::Count(n),
                            Err(e) => OpResult::Err(err_string(&e)),
                        }
                    }
                } else if *nowait {
                    unit(ch.queue_purge_nowait(queue.clone()))
                } else {
                    match ch.queue_purge(queue.clone()) {
                        Ok(n) => OpResult::Count(n),
                        Err(e) => OpResult::Err(err_string(&e)),
                    }
                }
            }
            Op::QueueDelete { queue, if_unused, if_empty, nowait, via_queue } => {
                let o = QueueDeleteOptions { if_unused: *if_unused, if_empty: *if_empty };
                if *via_queue {
                    let q = match ch.queue_declare_nowait(queue.clone(), QueueDeclareOptions::default()) {
                        Ok(q) => q,
                        Err(e) => return OpResult::Err(err_string(&e)),
                    };
                    if *nowait {
                        unit(q.delete_nowait(o))
                    } else {
                        match q.delete(o) {
                            Ok(n) => OpResult::Count(n),
                            Err(e) => OpResult::Err(err_string(&e)),
                        }
                    }
                } else if *nowait {
                    unit(ch.queue_delete_nowait(queue.clone(), o))
                } else {
                    match ch.queue_delete(queue.clone(), o) {
                        Ok(n) => OpResult::Count(n),
                        Err(e) => OpResult::Err(err_string(&e)),
                    }
                }
            }
            Op::ExchangeDeclare { ty, name, durable, auto_delete, internal, args, mode } => {
                let o = ExchangeDeclareOptions { durable: *durable, auto_delete: *auto_delete, internal: *internal, arguments: make_table(*args, mark) };
                let r = match mode {
                    Mode::Sync => ch.exchange_declare(ty.to_amiquip(), name.clone(), o),
                    Mode::Nowait => ch.exchange_declare_nowait(ty.to_amiquip(), name.clone(), o),
                    Mode::Passive => ch.exchange_declare_passive(name.clone()),
                    Mode::SyncThenUse => ch.exchange_declare(ty.to_amiquip(), name.clone(), o),
                };
                match r {
                    Ok(x) => OpResult::Queue { name: x.name().to_string(), message_count: None, consumer_count: None },
                    Err(e) => OpResult::Err(err_string(&e)),
                }
            }
            Op::ExchangeBind { dest, src, rk, args, nowait, via } => {
                let t = make_table(*args, mark);
                // via 3 / 4: as 1 / 2, but the handle passed as the *argument* lives on the thread's next channel
                // (the method must still go out on the channel of the handle the call is made on)
                let other: &'static Channel = {
                    let o = (slot + 1) % self.chans.len();
                    if *via >= 3 && o != slot && !self.chans[o].ptr.is_null() && !self.chans[o].closed {
                        self.hist.lock().unwrap().notes.push(format!("xvia-other t{} idx{} ch{}", self.thread, idx, self.chans[o].id));
                        self.chans[o].chan()
                    } else {
                        ch
                    }
                };
                match via {
                    0 => unit(if *nowait { ch.exchange_bind_nowait(dest.clone(), src.clone(), rk.clone(), t) } else { ch.exchange_bind(dest.clone(), src.clone(), rk.clone(), t) }),
                    _ => {
                        let d = match (if *via == 4 { other } else { ch }).exchange_declare_nowait(ExchangeType::Direct, dest.clone(), ExchangeDeclareOptions::default()) {
                            Ok(x) => x,
                            Err(e) => return OpResult::Err(err_string(&e)),
                        };
                        let s = match (if *via == 3 { other } else { ch }).exchange_declare_nowait(ExchangeType::Direct, src.clone(), ExchangeDeclareOptions::default()) {
                            Ok(x) => x,
                            Err(e) => return OpResult::Err(err_string(&e)),
                        };
                        if *via == 1 || *via == 3 {
                            unit(if *nowait { d.bind_to_source_nowait(&s, rk.clone(), t) } else { d.bind_to_source(&s, rk.clone(), t) })
                        } else {
                            unit(if *nowait { s.bind_to_destination_nowait(&d, rk.clone(), t) } else { s.bind_to_destination(&d, rk.clone(), t) })
                        }
                    }
                }
            }
            Op::ExchangeUnbind { dest, src, rk, args, nowait, via } => {
                let t = make_table(*args, mark);
                // via 3 / 4: as 1 / 2, but the handle passed as the *argument* lives on the thread's next channel
                // (the method must still go out on the channel of the handle the call is made on)
                let other: &'static Channel = {
                    let o = (slot + 1) % self.chans.len();
                    if *via >= 3 && o != slot && !self.chans[o].ptr.is_null() && !self.chans[o].closed {
                        self.hist.lock().unwrap().notes.push(format!("xvia-other t{} idx{} ch{}", self.thread, idx, self.chans[o].id));
                        self.chans[o].chan()
                    } else {
                        ch
                    }
                };
                match via {
                    0 => unit(if *nowait { ch.exchange_unbind_nowait(dest.clone(), src.clone(), rk.clone(), t) } else { ch.exchange_unbind(dest.clone(), src.clone(), rk.clone(), t) }),
                    _ => {
                        let d = match (if *via == 4 { other } else { ch }).exchange_declare_nowait(ExchangeType::Direct, dest.clone(), ExchangeDeclareOptions::default()) {
                            Ok(x) => x,
                            Err(e) => return OpResult::Err(err_string(&e)),
                        };
                        let s = match (if *via == 3 { other } else { ch }).exchange_declare_nowait(ExchangeType::Direct, src.clone(), ExchangeDeclareOptions::default()) {
                            Ok(x) => x,
                            Err(e) => return OpResult::Err(err_string(&e)),
                        };
                        if *via == 1 || *via == 3 {
                            unit(if *nowait { d.unbind_from_source_nowait(&s, rk.clone(), t) } else { d.unbind_from_source(&s, rk.clone(), t) })
                        } else {
                            unit(if *nowait { s.unbind_from_destination_nowait(&d, rk.clone(), t) } else { s.unbind_from_destination(&d, rk.clone(), t) })
                        }
                    }
                }
            }
            Op::ExchangeDelete { name, if_unused, nowait, via_exchange } => {
                if *via_exchange {
                    let x = match ch.exchange_declare_nowait(ExchangeType::Direct, name.clone(), ExchangeDeclareOptions::default()) {
                        Ok(x) => x,
                        Err(e) => return OpResult::Err(err_string(&e)),
                    };
                    unit(if *nowait { x.delete_nowait(*if_unused) } else { x.delete(*if_unused) })
                } else {
                    unit(if *nowait { ch.exchange_delete_nowait(name.clone(), *if_unused) } else { ch.exchange_delete(name.clone(), *if_unused) })
                }
            }
            Op::Qos { size, count, global } => unit(ch.qos(*size, *count, *global)),
            Op::Recover { requeue } => unit(ch.recover(*requeue)),
            Op::ConfirmSelect { nowait } => unit(if *nowait { ch.enable_publisher_confirms_nowait() } else { ch.enable_publisher_confirms() }),
            Op::Publish { exchange, rk, mandatory, immediate, props, body_len, via_exchange } => {
                let body = make_body(mark, *body_len);
                let p = Publish { body: &body, routing_key: rk.clone(), mandatory: *mandatory, immediate: *immediate, properties: make_props(*props, mark) };
                if *via_exchange && exchange.is_empty() {
                    unit(Exchange::direct(ch).publish(p))
                } else {
                    unit(ch.basic_publish(exchange.clone(), p))
                }
            }
            Op::Get { queue, no_ack, then, via_queue, via_get } => {
                let r = if *via_queue {
                    match ch.queue_declare_nowait(queue.clone(), QueueDeclareOptions::default()) {
                        Ok(q) => q.get(*no_ack),
                        Err(e) => Err(e),
                    }
                } else {
                    ch.basic_get(queue.clone(), *no_ack)
                };
                match r {
                    Ok(None) => OpResult::Got(None),
                    Ok(Some(g)) => {
                        let got = GotMsg::from_delivery(&g.delivery, Some(g.message_count));
                        let ar = if *via_get {
                            match then {
                                AckKind::None => Ok(()),
                                AckKind::Ack => g.ack(ch),
                                AckKind::AckMultiple => g.ack_multiple(ch),
                                AckKind::Nack(r) => g.nack(ch, *r),
                                AckKind::NackMultiple(r) => g.nack_multiple(ch, *r),
                                AckKind::Reject(r) => g.reject(ch, *r),
                            }
                        } else {
                            ack_delivery(then, g.delivery, ch)
                        };
                        if let Err(e) = ar {
                            return OpResult::Err(format!("ack-after-get:{}", err_string(&e)));
                        }
                        OpResult::Got(Some(got))
                    }
                    Err(e) => OpResult::Err(err_string(&e)),
                }
            }
            Op::Consume { queue, no_local, no_ack, exclusive, args, via_queue } => {
                let o = ConsumerOptions { no_local: *no_local, no_ack: *no_ack, exclusive: *exclusive, arguments: make_table(*args, mark) };
                let r = if *via_queue {
                    match ch.queue_declare_nowait(queue.clone(), QueueDeclareOptions::default()) {
                        Ok(q) => q.consume(o),
                        Err(e) => Err(e),
                    }
                } else {
                    ch.basic_consume(queue.clone(), o)
                };
                match r {
                    Ok(c) => {
                        let tag = c.consumer_tag().to_string();
                        let rx = c.receiver().clone();
                        self.consumers.push(ConsumerSlot { chan_slot: slot, tag: tag.clone(), consumer: Some(c), rx, kept: Vec::new() });
                        OpResult::Consumer { tag }
                    }
                    Err(e) => {
                        // keep consumer slots aligned with the plan
                        let (_tx, rx) = crossbeam_channel::unbounded();
                        self.consumers.push(ConsumerSlot { chan_slot: slot, tag: String::new(), consumer: None, rx, kept: Vec::new() });
                        OpResult::Err(err_string(&e))
                    }
                }
            }
            Op::Drain { slot: cs, max, acks, via_consumer } => {
                if *cs >= self.consumers.len() || self.consumers[*cs].tag.is_empty() {
                    return OpResult::Skipped;
                }
                if self.consumers[*cs].chan_slot != slot {
                    // acks would go through a foreign channel: plan error, do not do it
                    return OpResult::Skipped;
                }
                let rx = self.consumers[*cs].rx.clone();
                let mut ack_err: Option<String> = None;
                let consumer = self.consumers[*cs].consumer.take();
                let (msgs, terminals, disconnected, after_terminal) = drain_receiver(&rx, *max, |d, i| {
                    if acks.is_empty() {
                        return;
                    }
                    let k = &acks[i % acks.len()];
                    let r = match (&consumer, via_consumer) {
                        (Some(c), true) => ack_via_consumer(k, d, c),
                        _ => ack_delivery(k, d, ch),
                    };
                    if let Err(e) = r {
                        if ack_err.is_none() {
                            ack_err = Some(err_string(&e));
                        }
                    }
                });
                self.consumers[*cs].consumer = consumer;
                let _ = idx;
                if let Some(e) = ack_err {
                    self.hist.lock().unwrap().notes.push(format!("ack error during drain t{} slot{}: {}", self.thread, cs, e));
                }
                OpResult::Drained { msgs, terminals, disconnected, after_terminal }
            }
            Op::Cancel { slot: cs } => {
                if *cs >= self.consumers.len() {
                    return OpResult::Skipped;
                }
                match &self.consumers[*cs].consumer {
                    Some(c) => unit(c.cancel()),
                    None => OpResult::Skipped,
                }
            }
            Op::DropConsumer { slot: cs, whole } => {
                if *cs >= self.consumers.len() {
                    return OpResult::Skipped;
                }
                if *whole {
                    let (_tx, dummy) = crossbeam_channel::unbounded();
                    self.consumers[*cs].rx = dummy;
                    self.consumers[*cs].kept.clear();
                }
                let c = self.consumers[*cs].consumer.take();
                if idx % 2 == 1 && c.is_some() {
                    // every other drop happens the way it does when application code panics and the panic is
                    // caught further up: the consumer goes out of scope while its thread is unwinding
                    self.hist.lock().unwrap().notes.push(format!("drop-while-unwinding t{} idx{}", self.thread, idx));
                    let _ = std::panic::catch_unwind(std::panic::AssertUnwindSafe(move || {
                        let _c = c;
                        std::panic::panic_any(amiquip_simrt::DeliberateUnwind);
                    }));
                } else {
                    drop(c);
                }
                OpResult::Unit
            }
            Op::ForgetConsumer { slot: cs } => {
                if *cs >= self.consumers.len() {
                    return OpResult::Skipped;
                }
                if let Some(c) = self.consumers[*cs].consumer.take() {
                    std::mem::forget(c);
                }
                OpResult::Unit
            }
            Op::ListenReturns => match ch.listen_for_returns() {
                Ok(rx) => {
                    if let Some(old) = self.chans[slot].returns.replace(rx) {
                        self.chans[slot].old_returns.push(old);
                    }
                    OpResult::Unit
                }
                Err(e) => OpResult::Err(err_string(&e)),
            },
            Op::ListenConfirms => match ch.listen_for_publisher_confirms() {
                Ok(rx) => {
                    if let Some(old) = self.chans[slot].confirms.replace(rx) {
                        self.chans[slot].old_confirms.push(old);
                    }
                    OpResult::Unit
                }
                Err(e) => OpResult::Err(err_string(&e)),
            },
            Op::DropReturns => {
                self.chans[slot].returns = None;
                OpResult::Unit
            }
            Op::DropConfirms => {
                self.chans[slot].confirms = None;
                OpResult::Unit
            }
            Op::ReadReturns => {
                let mut v = Vec::new();
                let mut disc = false;
                if let Some(rx) = &self.chans[slot].returns {
                    loop {
                        match rx.try_recv() {
                            Ok(r) => v.push(ReturnMsg { reply_code: r.reply_code, reply_text: r.reply_text, exchange: r.exchange, routing_key: r.routing_key, properties: r.properties, body: r.content }),
                            Err(TryRecvError::Empty) => break,
                            Err(TryRecvError::Disconnected) => {
                                disc = true;
                                break;
                            }
                        }
                    }
                } else {
                    return OpResult::Skipped;
                }
                OpResult::Returns(v, disc)
            }
            Op::ReadConfirms => {
                let mut v = Vec::new();
                let mut disc = false;
                if let Some(rx) = &self.chans[slot].confirms {
                    loop {
                        match rx.try_recv() {
                            Ok(Confirm::Ack(p)) => v.push((true, p.delivery_tag, p.multiple)),
                            Ok(Confirm::Nack(p)) => v.push((false, p.delivery_tag, p.multiple)),
                            Err(TryRecvError::Empty) => break,
                            Err(TryRecvError::Disconnected) => {
                                disc = true;
                                break;
                            }
                        }
                    }
                } else {
                    return OpResult::Skipped;
                }
                OpResult::Confirms(v, disc)
            }
            Op::ReadOld => {
                let mut confirms = Vec::new();
                for rx in &self.chans[slot].old_confirms {
                    let mut v = Vec::new();
                    let mut disc = false;
                    loop {
                        match rx.try_recv() {
                            Ok(Confirm::Ack(p)) => v.push((true, p.delivery_tag, p.multiple)),
                            Ok(Confirm::Nack(p)) => v.push((false, p.delivery_tag, p.multiple)),
                            Err(TryRecvError::Empty) => break,
                            Err(TryRecvError::Disconnected) => {
                                disc = true;
                                break;
                            }
                        }
                    }
                    confirms.push((v, disc));
                }
                let mut returns = Vec::new();
                for rx in &self.chans[slot].old_returns {
                    let mut v = Vec::new();
                    let mut disc = false;
                    loop {
                        match rx.try_recv() {
                            Ok(r) => v.push(ReturnMsg { reply_code: r.reply_code, reply_text: r.reply_text, exchange: r.exchange, routing_key: r.routing_key, properties: r.properties, body: r.content }),
                            Err(TryRecvError::Empty) => break,
                            Err(TryRecvError::Disconnected) => {
                                disc = true;
                                break;
                            }
                        }
                    }
                    returns.push((v, disc));
                }
                OpResult::OldListeners { confirms, returns }
            }
            Op::AckAll => unit(ch.ack_all()),
            Op::NackAll { requeue } => unit(ch.nack_all(*requeue)),
            Op::ForeignAck { kind, other_slot } => {
                if *other_slot >= self.chans.len() || self.chans[*other_slot].closed || self.chans[slot].kept.is_empty() {
                    return OpResult::Skipped;
                }
                let d = self.chans[slot].kept.pop().unwrap();
                let other: &'static Channel = self.chans[*other_slot].chan();
                let kind = kind.clone();
                let r = std::panic::catch_unwind(std::panic::AssertUnwindSafe(move || ack_delivery(&kind, d, other)));
                match r {
                    Err(p) => {
                        let msg = if let Some(s) = p.downcast_ref::<String>() { s.clone() } else if let Some(s) = p.downcast_ref::<&str>() { s.to_string() } else { "?".into() };
                        OpResult::Panicked(msg)
                    }
                    Ok(r) => unit(r),
                }
            }
            Op::GetKeep { queue } => match ch.basic_get(queue.clone(), false) {
                Ok(Some(g)) => {
                    let got = GotMsg::from_delivery(&g.delivery, Some(g.message_count));
                    self.chans[slot].kept.push(g.delivery);
                    OpResult::Got(Some(got))
                }
                Ok(None) => OpResult::Got(None),
                Err(e) => OpResult::Err(err_string(&e)),
            },
            Op::ForeignAckViaConsumer { kind, consumer_slot } => {
                if *consumer_slot >= self.consumers.len() || self.chans[slot].kept.is_empty() {
                    return OpResult::Skipped;
                }
                if self.consumers[*consumer_slot].chan_slot == slot || self.consumers[*consumer_slot].consumer.is_none() {
                    return OpResult::Skipped;
                }
                let d = self.chans[slot].kept.pop().unwrap();
                let c = self.consumers[*consumer_slot].consumer.take().unwrap();
                let kind = kind.clone();
                let r = std::panic::catch_unwind(std::panic::AssertUnwindSafe(|| ack_via_consumer(&kind, d, &c)));
                self.consumers[*consumer_slot].consumer = Some(c);
                match r {
                    Err(p) => {
                        let msg = if let Some(s) = p.downcast_ref::<String>() { s.clone() } else if let Some(s) = p.downcast_ref::<&str>() { s.to_string() } else { "?".into() };
                        OpResult::Panicked(msg)
                    }
                    Ok(r) => unit(r),
                }
            }
            Op::CloseChannel => {
                // a Consumer borrows its channel: anything still alive on this one is forgotten
                // (what safe user code would have to do to be allowed to close the channel)
                for c in self.consumers.iter_mut() {
                    if c.chan_slot == slot {
                        if let Some(x) = c.consumer.take() {
                            std::mem::forget(x);
                        }
                    }
                }
                match self.chans[slot].take() {
                    Some(c) => unit(c.close()),
                    None => OpResult::Skipped,
                }
            }
            Op::Yield => {
                simrt::yield_point("client.yield");
                OpResult::Unit
            }
            Op::Gate(id) => {
                simrt::gate_wait(*id);
                OpResult::Unit
            }
        }
    }

    pub fn run_ops(&mut self, ops: &[(usize, Op)]) {
        for (idx, (slot, op)) in ops.iter().enumerate() {
            let mark = format!("t{}o{}", self.thread, idx);
            simrt::set_note(format!("thread {} op#{} slot {} {:?}", self.thread, idx, slot, op));
            let invoke = simrt::stamp();
            let invoke_ns = simrt::now_ns();
            let ch_id = self.chans.get(*slot).map(|c| c.id).unwrap_or(0);
            let result = self.exec(*slot, idx, op, &mark);
            let ret = simrt::stamp();
            let ret_ns = simrt::now_ns();
            self.hist.lock().unwrap().ops.push(OpRec { thread: self.thread, slot: *slot, ch_id, idx, op: op.clone(), mark, invoke, ret, invoke_ns, ret_ns, result });
        }
        simrt::set_note(format!("thread {} finishing", self.thread));
    }

    /// Drop consumers (each drop cancels), then close every channel still open.
    pub fn finish(&mut self, close_channels: bool) {
        let base = 1_000_000;
        for i in 0..self.consumers.len() {
            if let Some(c) = self.consumers[i].consumer.take() {
                simrt::set_note(format!("thread {} final drop of consumer {}", self.thread, i));
                drop(c);
            }
        }
        for s in 0..self.chans.len() {
            if let Some(c) = self.chans[s].take() {
                simrt::set_note(format!("thread {} final close of channel slot {}", self.thread, s));
                let invoke = simrt::stamp();
                let invoke_ns = simrt::now_ns();
                let id = self.chans[s].id;
                let result = if close_channels {
                    unit(c.close())
                } else {
                    drop(c);
                    OpResult::Unit
                };
                let ret = simrt::stamp();
                self.hist.lock().unwrap().ops.push(OpRec {
                    thread: self.thread,
                    slot: s,
                    ch_id: id,
                    idx: base + s,
                    op: Op::CloseChannel,
                    mark: format!("t{}final{}", self.thread, s),
                    invoke,
                    ret,
                    invoke_ns,
                    ret_ns: simrt::now_ns(),
                    result,
                });
            }
        }
    }
}

pub fn read_blocked(rx: &Receiver<ConnectionBlockedNotification>) -> (Vec<Option<String>>, bool) {
    let mut v = Vec::new();
    let mut disc = false;
    loop {
        match rx.try_recv() {
            Ok(ConnectionBlockedNotification::Blocked(r)) => v.push(Some(r)),
            Ok(ConnectionBlockedNotification::Unblocked) => v.push(None),
            Err(TryRecvError::Empty) => break,
            Err(TryRecvError::Disconnected) => {
                disc = true;
                break;
            }
        }
    }
    (v, disc)
}
