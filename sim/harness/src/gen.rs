//! Seeded generation of sessions (programs, configurations, fault mixes).
use crate::broker::{BrokerCfg, SegMode};
use crate::client::*;
use crate::session::*;
use crate::stream::NetCfg;
use amiquip_simrt::{ChoiceStream, SchedCfg};

pub struct GenCfg {
    pub max_threads: u32,
    pub max_chans: u32,
    pub max_ops: u32,
    /// which op families are allowed
    pub rpc: bool,
    pub nowait: bool,
    pub publish: bool,
    pub consume: bool,
    pub get: bool,
    pub listeners: bool,
    pub acks: bool,
    pub via_handles: bool,
    /// body length upper bound in units of the per-frame payload P = frame_max - 8
    pub body_factor: u32,
    pub write_faults: bool,
    pub read_faults: bool,
    pub latency: bool,
    pub frame_max_choices: Vec<(u32, u32)>,
    pub heartbeat: u16,
    /// every channel registers a return listener first and reads it after a final round trip
    pub returns_protocol: bool,
    /// every consumer is cancelled and drained before the thread ends
    pub drain_all: bool,
    /// extra weight for publish ops
    pub publish_heavy: bool,
}

impl Default for GenCfg {
    fn default() -> Self {
        GenCfg {
            max_threads: 3,
            max_chans: 3,
            max_ops: 30,
            rpc: true,
            nowait: true,
            publish: true,
            consume: true,
            get: true,
            listeners: true,
            acks: true,
            via_handles: true,
            body_factor: 3,
            write_faults: true,
            read_faults: true,
            latency: true,
            frame_max_choices: vec![(0, 4096), (4096, 131072), (0, 8192), (4097, 0), (0, 131072), (8192, 4096)],
            heartbeat: 0,
            returns_protocol: false,
            drain_all: false,
            publish_heavy: false,
        }
    }
}

pub fn pick<'a, T>(cs: &mut ChoiceStream, label: &'static str, v: &'a [T]) -> &'a T {
    &v[cs.choose(label, v.len() as u32) as usize]
}

pub fn gen_name(cs: &mut ChoiceStream, mark: &str, what: &str) -> String {
    // names of varying length, 1..=255 bytes, always carrying the mark
    let base = format!("{}.{}", what, mark);
    match cs.choose("name_len", 6) {
        0 | 1 | 2 => base,
        3 => format!("{}.{}", base, "x".repeat(40)),
        4 => {
            let pad = 255usize.saturating_sub(base.len() + 1);
            format!("{}.{}", base, "y".repeat(pad))
        }
        _ => format!("{}.{}", base, "z".repeat(cs.choose("name_pad", 200) as usize)),
    }
}

pub fn gen_ack(cs: &mut ChoiceStream) -> AckKind {
    match cs.choose("ack_kind", 7) {
        0 => AckKind::None,
        1 => AckKind::Ack,
        2 => AckKind::AckMultiple,
        3 => AckKind::Nack(cs.choose("requeue", 2) == 1),
        4 => AckKind::NackMultiple(cs.choose("requeue", 2) == 1),
        5 => AckKind::Reject(cs.choose("requeue", 2) == 1),
        _ => AckKind::Ack,
    }
}

fn b(cs: &mut ChoiceStream, l: &'static str) -> bool {
    cs.choose(l, 2) == 1
}

/// body length biased to the frame-splitting boundaries
pub fn gen_body_len(cs: &mut ChoiceStream, p: usize, factor: u32) -> usize {
    let cands = [0usize, 1, p - 1, p, p + 1, 2 * p - 1, 2 * p, 2 * p + 1, 3 * p, 3 * p + 1];
    let max = p * factor as usize + 1;
    let k = cs.choose("body_len_kind", 14);
    let v = if (k as usize) < cands.len() {
        cands[k as usize]
    } else if k < 12 {
        cs.choose("body_len_small", 200) as usize
    } else {
        cs.choose("body_len_any", max as u32 + 1) as usize
    };
    v.min(max)
}

pub struct ThreadGen {
    pub ops: Vec<(usize, Op)>,
    /// consumer slots: (channel slot, state) 0 = active, 1 = cancelled, 2 = gone
    pub consumers: Vec<(usize, u8)>,
    pub returns_on: Vec<bool>,
    pub confirms_on: Vec<bool>,
}

/// Generate one thread's program over `n_chans` channel slots.
pub fn gen_thread(cs: &mut ChoiceStream, g: &GenCfg, thread_no: usize, n_chans: usize, n_ops: usize, p: usize) -> ThreadGen {
    let mut t = ThreadGen { ops: Vec::new(), consumers: Vec::new(), returns_on: vec![false; n_chans], confirms_on: vec![false; n_chans] };
    let mut kinds: Vec<&'static str> = Vec::new();
    if g.rpc {
        kinds.extend(["qdeclare", "qbind", "qunbind", "qpurge", "qdelete", "xdeclare", "xbind", "xunbind", "xdelete", "qos", "recover", "confirm"]);
    }
    if g.publish {
        kinds.extend(["publish", "publish", "publish"]);
    }
    if g.consume {
        kinds.extend(["consume", "cancel", "drain_some"]);
    }
    if g.get {
        kinds.push("get");
    }
    if g.listeners {
        kinds.extend(["listen_returns", "listen_confirms", "read_returns", "read_confirms"]);
    }
    if g.acks {
        kinds.extend(["ack_all", "nack_all"]);
    }
    kinds.push("yield");
    if g.publish_heavy {
        kinds.extend(["publish"; 12]);
    }
    if g.returns_protocol {
        for slot in 0..n_chans {
            t.returns_on[slot] = true;
            t.ops.push((slot, Op::ListenReturns));
        }
        kinds.retain(|k| *k != "listen_returns");
    }
    for i in 0..n_ops {
        let idx = t.ops.len();
        let mark = format!("t{}o{}", thread_no, idx);
        let slot = cs.choose("op_slot", n_chans as u32) as usize;
        let kind = *pick(cs, "op_kind", &kinds);
        let _ = i;
        let nowait_ok = g.nowait;
        let via = g.via_handles && cs.choose("via_handle", 4) == 0;
        let op = match kind {
            "qdeclare" => {
                let mode = match cs.choose("mode", 4) {
                    0 => Mode::Sync,
                    1 if nowait_ok => Mode::Nowait,
                    1 => Mode::Sync,
                    2 if g.via_handles => Mode::SyncThenUse,
                    2 => Mode::Sync,
                    _ => Mode::Passive,
                };
                let auto = (mode == Mode::Sync && cs.choose("auto_name", 4) == 0) || (mode == Mode::SyncThenUse && cs.choose("auto_name", 2) == 0);
                let name = if auto { String::new() } else { gen_name(cs, &mark, "q") };
                // a server-named queue used through its handle: the declare carries the x-mark argument
                let args = if mode == Mode::SyncThenUse && auto { 1 } else { cs.choose("args", 5) };
                Op::QueueDeclare { name, durable: b(cs, "f"), exclusive: b(cs, "f"), auto_delete: b(cs, "f"), args, mode }
            }
            "qbind" => Op::QueueBind { queue: gen_name(cs, &mark, "q"), exchange: gen_name(cs, &mark, "x"), rk: gen_name(cs, &mark, "rk"), args: cs.choose("args", 5), nowait: nowait_ok && b(cs, "nowait"), via_queue: via },
            "qunbind" => Op::QueueUnbind { queue: gen_name(cs, &mark, "q"), exchange: gen_name(cs, &mark, "x"), rk: gen_name(cs, &mark, "rk"), args: cs.choose("args", 5), via_queue: via },
            "qpurge" => Op::QueuePurge { queue: gen_name(cs, &mark, "q"), nowait: nowait_ok && b(cs, "nowait"), via_queue: via },
            "qdelete" => Op::QueueDelete { queue: gen_name(cs, &mark, "q"), if_unused: b(cs, "f"), if_empty: b(cs, "f"), nowait: nowait_ok && b(cs, "nowait"), via_queue: via },
            "xdeclare" => {
                let mode = match cs.choose("mode", 3) {
                    0 => Mode::Sync,
                    1 if nowait_ok => Mode::Nowait,
                    1 => Mode::Sync,
                    _ => Mode::Passive,
                };
                let ty = match cs.choose("xtype", 5) {
                    0 => ExType::Direct,
                    1 => ExType::Fanout,
                    2 => ExType::Topic,
                    3 => ExType::Headers,
                    _ => ExType::Custom(format!("x-custom-{}", mark)),
                };
                Op::ExchangeDeclare { ty, name: gen_name(cs, &mark, "x"), durable: b(cs, "f"), auto_delete: b(cs, "f"), internal: b(cs, "f"), args: cs.choose("args", 5), mode }
            }
            "xbind" => Op::ExchangeBind { dest: gen_name(cs, &mark, "xd"), src: gen_name(cs, &mark, "xs"), rk: gen_name(cs, &mark, "rk"), args: cs.choose("args", 5), nowait: nowait_ok && b(cs, "nowait"), via: if g.via_handles { cs.choose("xvia", 5) as u8 } else { 0 } },
            "xunbind" => Op::ExchangeUnbind { dest: gen_name(cs, &mark, "xd"), src: gen_name(cs, &mark, "xs"), rk: gen_name(cs, &mark, "rk"), args: cs.choose("args", 5), nowait: nowait_ok && b(cs, "nowait"), via: if g.via_handles { cs.choose("xvia", 5) as u8 } else { 0 } },
            "xdelete" => Op::ExchangeDelete { name: gen_name(cs, &mark, "x"), if_unused: b(cs, "f"), nowait: nowait_ok && b(cs, "nowait"), via_exchange: via },
            "qos" => Op::Qos { size: cs.choose("qos_size", 3) * 1000, count: cs.choose("qos_count", 500) as u16, global: b(cs, "f") },
            "recover" => Op::Recover { requeue: b(cs, "f") },
            "confirm" => {
                t.confirms_on[slot] = true;
                Op::ConfirmSelect { nowait: nowait_ok && b(cs, "nowait") }
            }
            "publish" => {
                let direct = cs.choose("pub_direct", 4) == 0;
                Op::Publish {
                    exchange: if direct { String::new() } else { gen_name(cs, &mark, "x") },
                    rk: gen_name(cs, &mark, "rk"),
                    mandatory: b(cs, "f"),
                    immediate: b(cs, "f"),
                    props: cs.choose("props", 5),
                    body_len: gen_body_len(cs, p, g.body_factor),
                    via_exchange: direct && b(cs, "via_ex"),
                }
            }
            "get" => Op::Get { queue: gen_name(cs, &mark, "q"), no_ack: b(cs, "f"), then: if g.acks { gen_ack(cs) } else { AckKind::None }, via_queue: via, via_get: b(cs, "via_get") },
            "consume" => {
                if t.consumers.len() >= 4 {
                    Op::Yield
                } else {
                    t.consumers.push((slot, 0));
                    Op::Consume { queue: gen_name(cs, &mark, "q"), no_local: b(cs, "f"), no_ack: b(cs, "f"), exclusive: b(cs, "f"), args: cs.choose("args", 5), via_queue: via }
                }
            }
            "cancel" => {
                let live: Vec<usize> = t.consumers.iter().enumerate().filter(|(_, c)| c.1 <= 1).map(|(i, _)| i).collect();
                if live.is_empty() {
                    Op::Yield
                } else {
                    let c = *pick(cs, "cancel_which", &live);
                    t.consumers[c].1 = 1;
                    // the op is issued on the consumer's own channel slot
                    t.ops.push((t.consumers[c].0, Op::Cancel { slot: c }));
                    continue;
                }
            }
            "drain_some" => {
                // only a cancelled consumer can be drained to its end without knowing counts
                let done: Vec<usize> = t.consumers.iter().enumerate().filter(|(_, c)| c.1 == 1).map(|(i, _)| i).collect();
                if done.is_empty() {
                    Op::Yield
                } else {
                    let c = *pick(cs, "drain_which", &done);
                    t.consumers[c].1 = 2;
                    let n = cs.choose("n_acks", 3);
                    let acks: Vec<AckKind> = if g.acks { (0..n).map(|_| gen_ack(cs)).collect() } else { Vec::new() };
                    t.ops.push((t.consumers[c].0, Op::Drain { slot: c, max: None, acks, via_consumer: b(cs, "via_consumer") }));
                    continue;
                }
            }
            "listen_returns" => {
                t.returns_on[slot] = true;
                Op::ListenReturns
            }
            "listen_confirms" => {
                t.confirms_on[slot] = true;
                Op::ListenConfirms
            }
            "read_returns" => Op::ReadReturns,
            "read_confirms" => Op::ReadConfirms,
            "ack_all" => Op::AckAll,
            "nack_all" => Op::NackAll { requeue: b(cs, "f") },
            _ => Op::Yield,
        };
        t.ops.push((slot, op));
    }
    if g.drain_all {
        for c in 0..t.consumers.len() {
            let (slot, st) = t.consumers[c];
            if st == 0 {
                t.ops.push((slot, Op::Cancel { slot: c }));
            }
            if st <= 1 {
                let n = cs.choose("n_acks", 3);
                let acks: Vec<AckKind> = if g.acks { (0..n).map(|_| gen_ack(cs)).collect() } else { Vec::new() };
                t.ops.push((slot, Op::Drain { slot: c, max: None, acks, via_consumer: b(cs, "via_consumer") }));
            }
            t.consumers[c].1 = 2;
        }
    }
    if g.returns_protocol {
        for slot in 0..n_chans {
            t.ops.push((slot, Op::Qos { size: 0, count: 1, global: false }));
            t.ops.push((slot, Op::ReadReturns));
        }
    }
    t
}

pub struct Generated {
    pub plan: SessionPlan,
    pub net: NetCfg,
    pub broker: BrokerCfg,
    pub sched: SchedCfg,
    /// negotiated frame_max the generator aimed for
    pub frame_max: usize,
}

pub fn negotiated_frame_max(client: u32, server: u32) -> usize {
    let c = if client == 0 { u32::MAX } else { client };
    let s = if server == 0 { u32::MAX } else { server };
    c.min(s) as usize
}

pub fn gen_sched(cs: &mut ChoiceStream) -> SchedCfg {
    let mut s = SchedCfg::default();
    s.stick_pct = *pick(cs, "stick", &[50u32, 0, 90, 99]);
    s.hang_after_ns = 300_000_000_000;
    // slow nodes: in a quarter of the runs the I/O thread is descheduled now and then when it
    // polls (so that several things become pending at once), in another quarter the callers are
    match cs.choose("stall_profile", 4) {
        1 => {
            s.io_stall_permille = 60;
            s.io_stall_max_ns = *pick(cs, "io_stall_max", &[100_000u64, 2_000_000]);
        }
        2 => {
            s.client_stall_permille = 20;
            s.client_stall_max_ns = *pick(cs, "cl_stall_max", &[100_000u64, 1_000_000]);
        }
        _ => {}
    }
    gen_pct(cs, &mut s, 5);
    s
}

/// In one run out of `one_in` the scheduler is PCT-style (priorities + up to 3 change points) instead of the
/// sticky uniform one: a thread then runs until it blocks, and a low-priority thread only gets the gaps.
pub fn gen_pct(cs: &mut ChoiceStream, s: &mut SchedCfg, one_in: u32) {
    if cs.choose("pct", one_in) == one_in - 1 {
        s.pct = true;
        let d = cs.choose("pct_depth", 4);
        let len = *pick(cs, "pct_len", &[300u32, 1500, 6000]);
        for _ in 0..d {
            s.pct_points.push(1 + cs.choose("pct_cp", len) as u64);
        }
    }
}

pub fn gen_net(cs: &mut ChoiceStream, g: &GenCfg) -> NetCfg {
    let mut n = NetCfg::default();
    if g.write_faults {
        match cs.choose("wr_profile", 5) {
            0 => {}
            1 => {
                n.wr_short_permille = 300;
            }
            2 => {
                n.wr_block_permille = 200;
                n.wr_block_max_ns = 200_000;
            }
            3 => {
                n.wr_short_permille = 400;
                n.wr_block_permille = 300;
                n.wr_block_max_ns = 2_000_000;
            }
            _ => {
                n.wr_cap = 1 + cs.choose("wr_cap", 7) as usize;
                n.wr_block_permille = 100;
                n.wr_block_max_ns = 50_000;
            }
        }
    }
    if g.read_faults {
        n.rd_short_permille = *pick(cs, "rd_short", &[0u32, 0, 300, 700]);
    }
    if g.latency {
        n.c2s_lat_min_ns = 1_000;
        n.c2s_lat_max_ns = *pick(cs, "c2s_lat", &[1_000u64, 50_000, 1_000_000]);
    } else {
        n.c2s_lat_min_ns = 1_000;
        n.c2s_lat_max_ns = 1_000;
    }
    n
}

pub fn gen_broker(cs: &mut ChoiceStream, g: &GenCfg, server_fm: u32, p: usize) -> BrokerCfg {
    let mut bc = BrokerCfg::default();
    bc.tune = (*pick(cs, "srv_chmax", &[2047u16, 0, 255, 65535]), server_fm, g.heartbeat);
    if g.latency {
        bc.think_min_ns = 0;
        bc.think_max_ns = *pick(cs, "think", &[0u64, 20_000, 500_000, 5_000_000]);
        bc.s2c_lat_min_ns = 1_000;
        bc.s2c_lat_max_ns = *pick(cs, "s2c_lat", &[1_000u64, 50_000, 1_000_000]);
    }
    if g.read_faults {
        bc.seg_mode = pick(cs, "seg_mode", &[SegMode::Whole, SegMode::Random, SegMode::Small, SegMode::Mtu, SegMode::Random, SegMode::Whole, SegMode::Small, SegMode::Byte]).clone();
        bc.seg_gap_max_ns = *pick(cs, "seg_gap", &[0u64, 10_000, 300_000]);
        bc.spurious_permille = *pick(cs, "spurious", &[0u32, 0, 100]);
    }
    if g.consume {
        bc.deliveries_min = 0;
        bc.deliveries_max = 6;
    }
    bc.body_max = (p * g.body_factor as usize + 1).min(20_000);
    // keep dribbling runs affordable: content frames can still be many (1-byte body frames)
    match bc.seg_mode {
        SegMode::Byte => bc.body_max = bc.body_max.min(200),
        SegMode::Small => bc.body_max = bc.body_max.min(4_000),
        _ => {}
    }
    bc.mux_burst_max = *pick(cs, "mux_burst", &[1u32, 3, 8]);
    bc.mux_gap_max_ns = *pick(cs, "mux_gap", &[0u64, 20_000]);
    bc.return_permille = if g.listeners { 500 } else { 0 };
    bc.confirm_style = cs.choose("confirm_style", 2);
    bc
}

pub fn gen_session(cs: &mut ChoiceStream, g: &GenCfg) -> Generated {
    let (cfm, sfm) = *pick(cs, "frame_max_pair", &g.frame_max_choices);
    let frame_max = negotiated_frame_max(cfm, sfm);
    let p = frame_max.min(1 << 20) - 8;
    let sched = gen_sched(cs);
    let net = gen_net(cs, g);
    let broker = gen_broker(cs, g, sfm, p.min(8192));
    let n_threads = 1 + cs.choose("n_threads", g.max_threads) as usize;
    let mut threads = Vec::new();
    let mut ops_left = g.max_ops as usize;
    for t in 0..n_threads {
        let n_chans = 1 + cs.choose("n_chans", g.max_chans) as usize;
        let share = (ops_left / (n_threads - t)).max(1);
        let n_ops = 1 + cs.choose("n_ops", share as u32) as usize;
        ops_left = ops_left.saturating_sub(n_ops);
        let tg = gen_thread(cs, g, t + 1, n_chans, n_ops, p.min(8192));
        threads.push(ThreadPlan { chan_ids: vec![None; n_chans], ops: tg.ops, close_channels: cs.choose("close_channels", 4) != 0 });
    }
    let mut opts = ConnOpts::default();
    opts.frame_max = cfm;
    opts.heartbeat = g.heartbeat;
    let tuning = Tuning { bound: *pick(cs, "bound", &[16usize, 1, 2, 0]), high: 16 << 20, low: 0 };
    let plan = SessionPlan { opts, tuning, threads, owner_ops: vec![], close: CloseKind::Close, join_before_close: true };
    Generated { plan, net, broker, sched, frame_max }
}
