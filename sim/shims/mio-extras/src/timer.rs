//! Timer optimized for I/O related operations
use crate::convert;
use lazycell::LazyCell;
use mio::{Evented, Poll, PollOpt, Ready, Registration, SetReadiness, Token};
use slab::Slab;
use std::sync::atomic::{AtomicUsize, Ordering};
use std::sync::Arc;
// VENDORED from mio-extras 2.0.6 src/timer.rs.  Changes (all marked SIM):
//  * `Instant` is the simulator's clock,
//  * the wake-up thread is replaced by a simulator heap event that performs the
//    same compare-and-swap + set_readiness the thread performs when it wakes.
// The wheel, tick rounding and readiness logic are unchanged.
use amiquip_simrt::time::Instant; // SIM
use log::trace;
use std::time::Duration;
use std::{cmp, fmt, io, iter, u64, usize};

/// A timer.
///
/// Typical usage goes like this:
///
/// * register the timer with a `mio::Poll`.
/// * set a timeout, by calling `Timer::set_timeout`.  Here you provide some
///   state to be associated with this timeout.
/// * poll the `Poll`, to learn when a timeout has occurred.
/// * retrieve state associated with the timeout by calling `Timer::poll`.
///
/// You can omit use of the `Poll` altogether, if you like, and just poll the
/// `Timer` directly.
pub struct Timer<T> {
    // Size of each tick in milliseconds
    tick_ms: u64,
    // Slab of timeout entries
    entries: Slab<Entry<T>>,
    // Timeout wheel. Each tick, the timer will look at the next slot for
    // timeouts that match the current tick.
    wheel: Vec<WheelEntry>,
    // Tick 0's time instant
    start: Instant,
    // The current tick
    tick: Tick,
    // The next entry to possibly timeout
    next: Token,
    // Masks the target tick to get the slot
    mask: u64,
    // Set on registration with Poll
    inner: LazyCell<Inner>,
}

/// Used to create a `Timer`.
pub struct Builder {
    // Approximate duration of each tick
    tick: Duration,
    // Number of slots in the timer wheel
    num_slots: usize,
    // Max number of timeouts that can be in flight at a given time.
    capacity: usize,
}

/// A timeout, as returned by `Timer::set_timeout`.
///
/// Use this as the argument to `Timer::cancel_timeout`, to cancel this timeout.
#[derive(Clone, Debug)]
pub struct Timeout {
    // Reference into the timer entry slab
    token: Token,
    // Tick that it should match up with
    tick: u64,
}

struct Inner {
    registration: Registration,
    set_readiness: SetReadiness,
    wakeup_state: WakeupState,
    // SIM: no wakeup thread
    start: Instant,
    tick_ms: u64,
}

impl Drop for Inner {
    fn drop(&mut self) {
        // 1. Set wakeup state to TERMINATE_THREAD
        self.wakeup_state.store(TERMINATE_THREAD, Ordering::Release);
        // SIM: pending wake-up events see TERMINATE_THREAD and do nothing
    }
}

#[derive(Copy, Clone, Debug)]
struct WheelEntry {
    next_tick: Tick,
    head: Token,
}

// Doubly linked list of timer entries. Allows for efficient insertion /
// removal of timeouts.
struct Entry<T> {
    state: T,
    links: EntryLinks,
}

#[derive(Copy, Clone)]
struct EntryLinks {
    tick: Tick,
    prev: Token,
    next: Token,
}

type Tick = u64;

const TICK_MAX: Tick = u64::MAX;

// Manages communication with wakeup thread
type WakeupState = Arc<AtomicUsize>;

const TERMINATE_THREAD: usize = 0;
const EMPTY: Token = Token(usize::MAX);

impl Builder {
    /// Set the tick duration.  Default is 100ms.
    pub fn tick_duration(mut self, duration: Duration) -> Builder {
        self.tick = duration;
        self
    }

    /// Set the number of slots.  Default is 256.
    pub fn num_slots(mut self, num_slots: usize) -> Builder {
        self.num_slots = num_slots;
        self
    }

    /// Set the capacity.  Default is 65536.
    pub fn capacity(mut self, capacity: usize) -> Builder {
        self.capacity = capacity;
        self
    }

    /// Build a `Timer` with the parameters set on this `Builder`.
    pub fn build<T>(self) -> Timer<T> {
        Timer::new(
            convert::millis(self.tick),
            self.num_slots,
            self.capacity,
            Instant::now(),
        )
    }
}

impl Default for Builder {
    fn default() -> Builder {
        Builder {
            tick: Duration::from_millis(100),
            num_slots: 1 << 8,
            capacity: 1 << 16,
        }
    }
}

impl<T> Timer<T> {
    fn new(tick_ms: u64, num_slots: usize, capacity: usize, start: Instant) -> Timer<T> {
        let num_slots = num_slots.next_power_of_two();
        let capacity = capacity.next_power_of_two();
        let mask = (num_slots as u64) - 1;
        let wheel = iter::repeat(WheelEntry {
            next_tick: TICK_MAX,
            head: EMPTY,
        })
        .take(num_slots)
        .collect();

        Timer {
            tick_ms,
            entries: Slab::with_capacity(capacity),
            wheel,
            start,
            tick: 0,
            next: EMPTY,
            mask,
            inner: LazyCell::new(),
        }
    }

    /// Set a timeout.
    ///
    /// When the timeout occurs, the given state becomes available via `poll`.
    pub fn set_timeout(&mut self, delay_from_now: Duration, state: T) -> Timeout {
        let delay_from_start = self.start.elapsed() + delay_from_now;
        self.set_timeout_at(delay_from_start, state)
    }

    fn set_timeout_at(&mut self, delay_from_start: Duration, state: T) -> Timeout {
        let mut tick = duration_to_tick(delay_from_start, self.tick_ms);
        trace!(
            "setting timeout; delay={:?}; tick={:?}; current-tick={:?}",
            delay_from_start,
            tick,
            self.tick
        );

        // Always target at least 1 tick in the future
        if tick <= self.tick {
            tick = self.tick + 1;
        }

        self.insert(tick, state)
    }

    fn insert(&mut self, tick: Tick, state: T) -> Timeout {
        // Get the slot for the requested tick
        let slot = (tick & self.mask) as usize;
        let curr = self.wheel[slot];

        // Insert the new entry
        let entry = Entry::new(state, tick, curr.head);
        let token = Token(self.entries.insert(entry));

        if curr.head != EMPTY {
            // If there was a previous entry, set its prev pointer to the new
            // entry
            self.entries[curr.head.into()].links.prev = token;
        }

        // Update the head slot
        self.wheel[slot] = WheelEntry {
            next_tick: cmp::min(tick, curr.next_tick),
            head: token,
        };

        self.schedule_readiness(tick);

        trace!("inserted timout; slot={}; token={:?}", slot, token);

        // Return the new timeout
        Timeout { token, tick }
    }

    /// Cancel a timeout.
    ///
    /// If the timeout has not yet occurred, the return value holds the
    /// associated state.
    pub fn cancel_timeout(&mut self, timeout: &Timeout) -> Option<T> {
        let links = match self.entries.get(timeout.token.into()) {
            Some(e) => e.links,
            None => return None,
        };

        // Sanity check
        if links.tick != timeout.tick {
            return None;
        }

        self.unlink(&links, timeout.token);
        Some(self.entries.remove(timeout.token.into()).state)
    }

    /// Poll for an expired timer.
    ///
    /// The return value holds the state associated with the first expired
    /// timer, if any.
    pub fn poll(&mut self) -> Option<T> {
        let target_tick = current_tick(self.start, self.tick_ms);
        self.poll_to(target_tick)
    }

    fn poll_to(&mut self, mut target_tick: Tick) -> Option<T> {
        trace!(
            "tick_to; target_tick={}; current_tick={}",
            target_tick,
            self.tick
        );

        if target_tick < self.tick {
            target_tick = self.tick;
        }

        while self.tick <= target_tick {
            let curr = self.next;

            trace!("ticking; curr={:?}", curr);

            if curr == EMPTY {
                self.tick += 1;

                let slot = self.slot_for(self.tick);
                self.next = self.wheel[slot].head;

                // Handle the case when a slot has a single timeout which gets
                // canceled before the timeout expires. In this case, the
                // slot's head is EMPTY but there is a value for next_tick. Not
                // resetting next_tick here causes the timer to get stuck in a
                // loop.
                if self.next == EMPTY {
                    self.wheel[slot].next_tick = TICK_MAX;
                }
            } else {
                let slot = self.slot_for(self.tick);

                if curr == self.wheel[slot].head {
                    self.wheel[slot].next_tick = TICK_MAX;
                }

                let links = self.entries[curr.into()].links;

                if links.tick <= self.tick {
                    trace!("triggering; token={:?}", curr);

                    // Unlink will also advance self.next
                    self.unlink(&links, curr);

                    // Remove and return the token
                    return Some(self.entries.remove(curr.into()).state);
                } else {
                    let next_tick = self.wheel[slot].next_tick;
                    self.wheel[slot].next_tick = cmp::min(next_tick, links.tick);
                    self.next = links.next;
                }
            }
        }

        // No more timeouts to poll
        if let Some(inner) = self.inner.borrow() {
            trace!("unsetting readiness");
            let _ = inner.set_readiness.set_readiness(Ready::empty());

            if let Some(tick) = self.next_tick() {
                self.schedule_readiness(tick);
            }
        }

        None
    }

    fn unlink(&mut self, links: &EntryLinks, token: Token) {
        trace!(
            "unlinking timeout; slot={}; token={:?}",
            self.slot_for(links.tick),
            token
        );

        if links.prev == EMPTY {
            let slot = self.slot_for(links.tick);
            self.wheel[slot].head = links.next;
        } else {
            self.entries[links.prev.into()].links.next = links.next;
        }

        if links.next != EMPTY {
            self.entries[links.next.into()].links.prev = links.prev;

            if token == self.next {
                self.next = links.next;
            }
        } else if token == self.next {
            self.next = EMPTY;
        }
    }

    fn schedule_readiness(&self, tick: Tick) {
        if let Some(inner) = self.inner.borrow() {
            // Coordinate setting readiness w/ the wakeup thread
            let mut curr = inner.wakeup_state.load(Ordering::Acquire);

            loop {
                if curr as Tick <= tick {
                    // Nothing to do, wakeup is already scheduled
                    return;
                }

                // Attempt to move the wakeup time forward
                trace!("advancing the wakeup time; target={}; curr={}", tick, curr);
                #[allow(deprecated)]
                let actual =
                    inner
                        .wakeup_state
                        .compare_and_swap(curr, tick as usize, Ordering::Release);

                if actual == curr {
                    // SIM: instead of unparking the wakeup thread, schedule what
                    // it does when it wakes at `tick`.
                    sim_schedule_wakeup(
                        Arc::clone(&inner.wakeup_state),
                        inner.set_readiness.clone(),
                        inner.start,
                        inner.tick_ms,
                        tick,
                    );
                    return;
                }

                curr = actual;
            }
        }
    }

    // Next tick containing a timeout
    fn next_tick(&self) -> Option<Tick> {
        if self.next != EMPTY {
            let slot = self.slot_for(self.entries[self.next.into()].links.tick);

            if self.wheel[slot].next_tick == self.tick {
                // There is data ready right now
                return Some(self.tick);
            }
        }

        self.wheel.iter().map(|e| e.next_tick).min()
    }

    fn slot_for(&self, tick: Tick) -> usize {
        (self.mask & tick) as usize
    }
}

impl<T> Default for Timer<T> {
    fn default() -> Timer<T> {
        Builder::default().build()
    }
}

impl<T> Evented for Timer<T> {
    fn register(
        &self,
        poll: &Poll,
        token: Token,
        interest: Ready,
        opts: PollOpt,
    ) -> io::Result<()> {
        if self.inner.borrow().is_some() {
            return Err(io::Error::new(
                io::ErrorKind::Other,
                "timer already registered",
            ));
        }

        let (registration, set_readiness) = Registration::new2();
        poll.register(&registration, token, interest, opts)?;
        let wakeup_state = Arc::new(AtomicUsize::new(usize::MAX));

        self.inner
            .fill(Inner {
                registration,
                set_readiness,
                wakeup_state,
                start: self.start,
                tick_ms: self.tick_ms,
            })
            .expect("timer already registered");

        if let Some(next_tick) = self.next_tick() {
            self.schedule_readiness(next_tick);
        }

        Ok(())
    }

    fn reregister(
        &self,
        poll: &Poll,
        token: Token,
        interest: Ready,
        opts: PollOpt,
    ) -> io::Result<()> {
        match self.inner.borrow() {
            Some(inner) => poll.reregister(&inner.registration, token, interest, opts),
            None => Err(io::Error::new(
                io::ErrorKind::Other,
                "receiver not registered",
            )),
        }
    }

    fn deregister(&self, poll: &Poll) -> io::Result<()> {
        match self.inner.borrow() {
            Some(inner) => poll.deregister(&inner.registration),
            None => Err(io::Error::new(
                io::ErrorKind::Other,
                "receiver not registered",
            )),
        }
    }
}

impl fmt::Debug for Inner {
    fn fmt(&self, fmt: &mut fmt::Formatter) -> fmt::Result {
        fmt.debug_struct("Inner")
            .field("registration", &self.registration)
            .field("wakeup_state", &self.wakeup_state.load(Ordering::Relaxed))
            .finish()
    }
}

// SIM: the body of the wake-up thread for one wake-up.  The real thread sleeps
// `(target - now_tick) * tick_ms` from a `now_tick` that is rounded to the
// nearest tick, so it wakes within half a tick of the nominal time (plus OS
// lateness); the simulator draws that offset.
fn sim_schedule_wakeup(
    state: WakeupState,
    set_readiness: SetReadiness,
    start: Instant,
    tick_ms: u64,
    tick: Tick,
) {
    if !amiquip_simrt::is_sim_thread() {
        return;
    }
    let nominal = start.as_sim_ns() + tick.saturating_mul(tick_ms).saturating_mul(1_000_000);
    let step = (tick_ms * 1_000_000 / 10).max(1);
    let j = amiquip_simrt::choose("timer_jitter", 11) as u64;
    let at = if j <= 5 { nominal + j * step } else { nominal.saturating_sub((j - 5) * step) };
    amiquip_simrt::schedule_callback(
        at,
        false,
        "timer_wakeup",
        Box::new(move || {
            #[allow(deprecated)]
            let actual = state.compare_and_swap(tick as usize, usize::MAX, Ordering::AcqRel) as Tick;
            if actual == tick {
                trace!("setting readiness from simulated wakeup");
                let _ = set_readiness.set_readiness(Ready::readable());
                amiquip_simrt::effect(amiquip_simrt::Key::Poll);
            }
        }),
    );
}

fn duration_to_tick(elapsed: Duration, tick_ms: u64) -> Tick {
    // Calculate tick rounding up to the closest one
    let elapsed_ms = convert::millis(elapsed);
    elapsed_ms.saturating_add(tick_ms / 2) / tick_ms
}

fn current_tick(start: Instant, tick_ms: u64) -> Tick {
    duration_to_tick(start.elapsed(), tick_ms)
}

impl<T> Entry<T> {
    fn new(state: T, tick: u64, next: Token) -> Entry<T> {
        Entry {
            state,
            links: EntryLinks {
                tick,
                prev: EMPTY,
                next,
            },
        }
    }
}

