pub mod channel;
pub mod timer;

mod convert {
    use std::time::Duration;

    const NANOS_PER_MILLI: u32 = 1_000_000;
    const MILLIS_PER_SEC: u64 = 1_000;

    pub fn millis(duration: Duration) -> u64 {
        let millis = (duration.subsec_nanos() + NANOS_PER_MILLI - 1) / NANOS_PER_MILLI;
        duration
            .as_secs()
            .saturating_mul(MILLIS_PER_SEC)
            .saturating_add(u64::from(millis))
    }
}
