//! Wrapper over the real `mio_extras::channel`: readiness, pending counters and
//! the std mpsc queue inside are the real ones; only blocking `send` is turned
//! into try_send + park.
use amiquip_simrt as simrt;
use mio::{Evented, Poll, PollOpt, Ready, Token};
use simrt::Key;
use std::io;
use std::sync::mpsc;

pub use real::channel::{SendError, TrySendError};

pub struct Sender<T> {
    inner: real::channel::Sender<T>,
    id: u64,
}

pub struct SyncSender<T> {
    inner: real::channel::SyncSender<T>,
    id: u64,
}

pub struct Receiver<T> {
    inner: real::channel::Receiver<T>,
    id: u64,
}

pub fn channel<T>() -> (Sender<T>, Receiver<T>) {
    let (tx, rx) = real::channel::channel();
    let id = simrt::new_obj_id();
    (Sender { inner: tx, id }, Receiver { inner: rx, id })
}

pub fn sync_channel<T>(bound: usize) -> (SyncSender<T>, Receiver<T>) {
    let (tx, rx) = real::channel::sync_channel(bound);
    let id = simrt::new_obj_id();
    (SyncSender { inner: tx, id }, Receiver { inner: rx, id })
}

impl<T> Sender<T> {
    pub fn send(&self, t: T) -> Result<(), SendError<T>> {
        simrt::yield_point("mx.send");
        let r = self.inner.send(t);
        if r.is_ok() {
            simrt::effect(Key::Chan(self.id));
            simrt::effect(Key::Poll);
        }
        r
    }
}

impl<T> Clone for Sender<T> {
    fn clone(&self) -> Sender<T> {
        Sender { inner: self.inner.clone(), id: self.id }
    }
}

impl<T> Drop for Sender<T> {
    fn drop(&mut self) {
        // the real SenderCtl::drop sets readiness when the last sender goes
        simrt::effect(Key::Chan(self.id));
        simrt::effect(Key::Poll);
    }
}

impl<T> SyncSender<T> {
    pub fn send(&self, t: T) -> Result<(), SendError<T>> {
        if !simrt::is_sim_thread() {
            return self.inner.send(t);
        }
        simrt::yield_point("mx.send");
        let mut t = t;
        loop {
            match self.inner.try_send(t) {
                Ok(()) => {
                    simrt::effect(Key::Chan(self.id));
                    simrt::effect(Key::Poll);
                    return Ok(());
                }
                Err(TrySendError::Io(e)) => return Err(SendError::Io(e)),
                Err(TrySendError::Disconnected(v)) => return Err(SendError::Disconnected(v)),
                Err(TrySendError::Full(v)) => {
                    if simrt::poisoned() {
                        return Err(SendError::Disconnected(v));
                    }
                    t = v;
                    simrt::park_on("mx.send", &[Key::Chan(self.id)], None);
                }
            }
        }
    }

    pub fn try_send(&self, t: T) -> Result<(), TrySendError<T>> {
        simrt::yield_point("mx.try_send");
        let r = self.inner.try_send(t);
        if r.is_ok() {
            simrt::effect(Key::Chan(self.id));
            simrt::effect(Key::Poll);
        }
        r
    }
}

impl<T> Clone for SyncSender<T> {
    fn clone(&self) -> SyncSender<T> {
        SyncSender { inner: self.inner.clone(), id: self.id }
    }
}

impl<T> Drop for SyncSender<T> {
    fn drop(&mut self) {
        simrt::effect(Key::Chan(self.id));
        simrt::effect(Key::Poll);
    }
}

impl<T> Receiver<T> {
    pub fn try_recv(&self) -> Result<T, mpsc::TryRecvError> {
        simrt::yield_point("mx.try_recv");
        let r = self.inner.try_recv();
        if r.is_ok() {
            simrt::effect(Key::Chan(self.id));
        }
        r
    }
}

impl<T> Drop for Receiver<T> {
    fn drop(&mut self) {
        simrt::effect(Key::Chan(self.id));
    }
}

impl<T> Evented for Receiver<T> {
    fn register(&self, poll: &Poll, token: Token, interest: Ready, opts: PollOpt) -> io::Result<()> {
        self.inner.register(poll, token, interest, opts)
    }
    fn reregister(&self, poll: &Poll, token: Token, interest: Ready, opts: PollOpt) -> io::Result<()> {
        self.inner.reregister(poll, token, interest, opts)
    }
    fn deregister(&self, poll: &Poll) -> io::Result<()> {
        self.inner.deregister(poll)
    }
}
