//! Wrapper around the real crossbeam-channel.  Every operation is a scheduling
//! point of the simulator; blocking operations become try_op + park.  Outside a
//! simulation the real blocking operations are used.
use amiquip_simrt as simrt;
use simrt::Key;
use std::time::Duration;

pub use real::{RecvError, RecvTimeoutError, SendError, TryRecvError, TrySendError};

pub struct Sender<T> {
    inner: real::Sender<T>,
    id: u64,
}

pub struct Receiver<T> {
    inner: real::Receiver<T>,
    id: u64,
}

pub fn bounded<T>(cap: usize) -> (Sender<T>, Receiver<T>) {
    let (tx, rx) = real::bounded(cap);
    let id = simrt::new_obj_id();
    (Sender { inner: tx, id }, Receiver { inner: rx, id })
}

pub fn unbounded<T>() -> (Sender<T>, Receiver<T>) {
    let (tx, rx) = real::unbounded();
    let id = simrt::new_obj_id();
    (Sender { inner: tx, id }, Receiver { inner: rx, id })
}

impl<T> Sender<T> {
    pub fn send(&self, msg: T) -> Result<(), SendError<T>> {
        if !simrt::is_sim_thread() {
            return self.inner.send(msg);
        }
        simrt::yield_point("cb.send");
        let mut msg = msg;
        loop {
            match self.inner.try_send(msg) {
                Ok(()) => {
                    simrt::effect(Key::Chan(self.id));
                    return Ok(());
                }
                Err(TrySendError::Disconnected(m)) => return Err(SendError(m)),
                Err(TrySendError::Full(m)) => {
                    if simrt::poisoned() {
                        return Err(SendError(m));
                    }
                    msg = m;
                    simrt::park_on("cb.send", &[Key::Chan(self.id)], None);
                }
            }
        }
    }

    pub fn try_send(&self, msg: T) -> Result<(), TrySendError<T>> {
        if !simrt::is_sim_thread() {
            return self.inner.try_send(msg);
        }
        simrt::yield_point("cb.try_send");
        let r = self.inner.try_send(msg);
        if r.is_ok() {
            simrt::effect(Key::Chan(self.id));
        }
        r
    }

    pub fn len(&self) -> usize {
        self.inner.len()
    }
    pub fn is_empty(&self) -> bool {
        self.inner.is_empty()
    }
    pub fn is_full(&self) -> bool {
        self.inner.is_full()
    }
    pub fn capacity(&self) -> Option<usize> {
        self.inner.capacity()
    }
    pub fn sim_id(&self) -> u64 {
        self.id
    }
}

impl<T> Clone for Sender<T> {
    fn clone(&self) -> Self {
        Sender { inner: self.inner.clone(), id: self.id }
    }
}

impl<T> Drop for Sender<T> {
    fn drop(&mut self) {
        simrt::effect(Key::Chan(self.id));
    }
}

impl<T> std::fmt::Debug for Sender<T> {
    fn fmt(&self, f: &mut std::fmt::Formatter<'_>) -> std::fmt::Result {
        f.pad("Sender { .. }")
    }
}

impl<T> Receiver<T> {
    pub fn recv(&self) -> Result<T, RecvError> {
        if !simrt::is_sim_thread() {
            return self.inner.recv();
        }
        simrt::yield_point("cb.recv");
        loop {
            match self.inner.try_recv() {
                Ok(v) => {
                    simrt::effect(Key::Chan(self.id));
                    return Ok(v);
                }
                Err(TryRecvError::Disconnected) => return Err(RecvError),
                Err(TryRecvError::Empty) => {
                    if simrt::poisoned() {
                        return Err(RecvError);
                    }
                    simrt::park_on("cb.recv", &[Key::Chan(self.id)], None);
                }
            }
        }
    }

    pub fn try_recv(&self) -> Result<T, TryRecvError> {
        if !simrt::is_sim_thread() {
            return self.inner.try_recv();
        }
        simrt::yield_point("cb.try_recv");
        let r = self.inner.try_recv();
        if r.is_ok() {
            simrt::effect(Key::Chan(self.id));
        }
        r
    }

    pub fn recv_timeout(&self, timeout: Duration) -> Result<T, RecvTimeoutError> {
        if !simrt::is_sim_thread() {
            return self.inner.recv_timeout(timeout);
        }
        simrt::yield_point("cb.recv_timeout");
        let deadline = simrt::now_ns() + timeout.as_nanos() as u64;
        loop {
            match self.inner.try_recv() {
                Ok(v) => {
                    simrt::effect(Key::Chan(self.id));
                    return Ok(v);
                }
                Err(TryRecvError::Disconnected) => return Err(RecvTimeoutError::Disconnected),
                Err(TryRecvError::Empty) => {
                    if simrt::poisoned() || simrt::now_ns() >= deadline {
                        return Err(RecvTimeoutError::Timeout);
                    }
                    simrt::park_on("cb.recv_timeout", &[Key::Chan(self.id)], Some(deadline));
                }
            }
        }
    }

    pub fn iter(&self) -> Iter<'_, T> {
        Iter { rx: self }
    }
    pub fn try_iter(&self) -> TryIter<'_, T> {
        TryIter { rx: self }
    }
    pub fn len(&self) -> usize {
        self.inner.len()
    }
    pub fn is_empty(&self) -> bool {
        self.inner.is_empty()
    }
    pub fn sim_id(&self) -> u64 {
        self.id
    }
}

impl<T> Clone for Receiver<T> {
    fn clone(&self) -> Self {
        Receiver { inner: self.inner.clone(), id: self.id }
    }
}

impl<T> Drop for Receiver<T> {
    fn drop(&mut self) {
        simrt::effect(Key::Chan(self.id));
    }
}

impl<T> std::fmt::Debug for Receiver<T> {
    fn fmt(&self, f: &mut std::fmt::Formatter<'_>) -> std::fmt::Result {
        f.pad("Receiver { .. }")
    }
}

pub struct Iter<'a, T> {
    rx: &'a Receiver<T>,
}
impl<T> Iterator for Iter<'_, T> {
    type Item = T;
    fn next(&mut self) -> Option<T> {
        self.rx.recv().ok()
    }
}

pub struct TryIter<'a, T> {
    rx: &'a Receiver<T>,
}
impl<T> Iterator for TryIter<'_, T> {
    type Item = T;
    fn next(&mut self) -> Option<T> {
        self.rx.try_recv().ok()
    }
}

pub struct IntoIter<T> {
    rx: Receiver<T>,
}
impl<T> Iterator for IntoIter<T> {
    type Item = T;
    fn next(&mut self) -> Option<T> {
        self.rx.recv().ok()
    }
}
impl<T> IntoIterator for Receiver<T> {
    type Item = T;
    type IntoIter = IntoIter<T>;
    fn into_iter(self) -> IntoIter<T> {
        IntoIter { rx: self }
    }
}
impl<'a, T> IntoIterator for &'a Receiver<T> {
    type Item = T;
    type IntoIter = Iter<'a, T>;
    fn into_iter(self) -> Iter<'a, T> {
        self.iter()
    }
}
